#!/bin/bash
# tools/run_seeded.sh [ID ...]: runs the property's quick check against each kept seeded change
# (scratch worktree, never /repo) and appends the outcome to seeded/RESULTS.md.
cd "$(dirname "$(readlink -f "$0")")/.."
ids=("$@"); [[ ${#ids[@]} -eq 0 ]] && ids=($(ls seeded | grep '^C'))
for id in "${ids[@]}"; do
  tools/mutant.sh "seeded/$id/patch.diff" "${id%%-*}" --no-baseline 2>&1 | grep '^MUTANT' | sed "s#[^ ]*/seeded/##; s#/patch.diff##" | while read -r l; do echo "- $(date -u +%H:%M) $l"; done | tee -a seeded/RESULTS.md
done
