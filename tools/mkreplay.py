#!/usr/bin/env python3
"""tools/mkreplay.py PROP UNIT NAME 'case-json' 'message'  -> replays/PROP/NAME.json"""
import json, os, sys
prop, unit, name, case, msg = sys.argv[1:6]
d = os.path.join(os.path.dirname(os.path.dirname(os.path.abspath(__file__))), 'replays', prop)
os.makedirs(d, exist_ok=True)
json.dump({'property': prop, 'unit': unit, 'message': msg, 'case': json.loads(case)}, open(os.path.join(d, name + '.json'), 'w'), indent=1)
