#!/usr/bin/env python3
"""tools/campaign_patch.py <file> <line> <op-substring> : prints a unified diff for a recorded campaign mutant."""
import json,sys,subprocess,tempfile,os
f,line,op=sys.argv[1],int(sys.argv[2]),sys.argv[3]
for l in open('/verif/mutants/CAMPAIGN.jsonl'):
    d=json.loads(l)
    if d['file']==f and d['line']==line and op in d['op']:
        src=open('/repo/'+f,'rb').read()
        new=src[:d['start']]+d['repl'].encode()+src[d['end']:]
        t=tempfile.mkdtemp()
        os.makedirs(os.path.join(t,'a',os.path.dirname(f))); os.makedirs(os.path.join(t,'b',os.path.dirname(f)))
        open(os.path.join(t,'a',f),'wb').write(src); open(os.path.join(t,'b',f),'wb').write(new)
        out=subprocess.run(['diff','-u',os.path.join('a',f),os.path.join('b',f)],cwd=t,stdout=subprocess.PIPE,text=True).stdout
        sys.stdout.write(out); break
else:
    sys.exit('not found')
