#!/usr/bin/env python3
"""tools/mkmutant.py NAME FILE OLD NEW [FILE OLD NEW ...]
Creates /verif/mutants/NAME.diff by replacing OLD with NEW (exactly once each) in a
scratch worktree of /repo. The worktree is removed afterwards; /repo is untouched."""
import subprocess, sys, tempfile, os, shutil
name, rest = sys.argv[1], sys.argv[2:]
assert len(rest) % 3 == 0 and rest
w = tempfile.mkdtemp(prefix='mw-mk-', dir='/tmp')
os.rmdir(w)
subprocess.check_call(['git', '-C', '/repo', 'worktree', 'add', '-q', '--detach', w, 'HEAD'])
try:
    for i in range(0, len(rest), 3):
        f, old, new = rest[i:i+3]
        p = os.path.join(w, f)
        s = open(p).read()
        assert s.count(old) == 1, (f, old, s.count(old))
        open(p, 'w').write(s.replace(old, new))
    r = subprocess.run(['go', 'build', './...'], cwd=w, env=dict(os.environ, GOFLAGS='-mod=mod', GOPROXY='off'), capture_output=True, text=True)
    if r.returncode != 0:
        print('does not compile:', r.stderr[-800:]); sys.exit(1)
    d = subprocess.check_output(['git', '-C', w, 'diff']).decode()
    os.makedirs('/verif/mutants', exist_ok=True)
    open(f'/verif/mutants/{name}.diff', 'w').write(d)
    print('wrote mutants/%s.diff (%d lines)' % (name, d.count('\n')))
finally:
    subprocess.call(['git', '-C', '/repo', 'worktree', 'remove', '--force', w])
    shutil.rmtree(w, ignore_errors=True)
