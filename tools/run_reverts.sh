#!/bin/bash
# tools/run_reverts.sh [KF-id ...]: for every fixed entry of known_findings.json reverts its
# fix: commit in a scratch worktree (never in /repo) and runs the property's quick check
# against it with the stored regression replays switched off (VERIF_NO_REPLAYS=1), i.e. asks
# whether the generated search alone finds the defect again. Appends to mutants/REVERTS.md.
cd /verif
python3 - "$@" <<'PY' > /tmp/reverts.$$
import json,sys
d=json.load(open('known_findings.json')); fs=d['findings'] if isinstance(d,dict) else d
want=set(sys.argv[1:])
for f in fs:
    if f['status']=='fixed' and f.get('commit') and (not want or f['id'] in want):
        print(f['id'],f['property'],f['commit'])
PY
while read -r id prop commit; do
  line=$(VERIF_NO_REPLAYS=1 tools/mutant.sh "revert:$commit" "$prop" --no-baseline 2>&1 | grep '^MUTANT' | tail -1 | cut -c1-330)
  echo "- $(date -u +%H:%M) $id ($prop, $commit) generated search only: ${line#MUTANT revert:$commit }" | tee -a mutants/REVERTS.md
done < /tmp/reverts.$$
rm -f /tmp/reverts.$$
