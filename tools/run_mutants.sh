#!/bin/bash
# tools/run_mutants.sh [name-prefix]: applies every mutants/*.diff listed in mutants/MAP to a
# scratch worktree (never to /repo), runs the pinned baseline and the mapped quick checks,
# and appends one line per (mutant, check) to mutants/RESULTS.md.
cd /verif
while read -r name props; do
  [[ -z "$name" || "$name" == \#* ]] && continue
  [[ -n "${1:-}" && "$name" != $1* ]] && continue
  tools/mutant.sh "mutants/$name.diff" "$props" 2>&1 | grep '^MUTANT' | sed "s#/verif/mutants/##; s#mutants/##; s#\.diff##" | while read -r l; do echo "- $(date -u +%H:%M) $l"; done | tee -a mutants/RESULTS.md
done < mutants/MAP
