#!/bin/bash
# tools/seed_round3.sh <PROP> [suffix]: verify the round-N agent worktree /tmp/seed-<PROP>r<N>, keep it as seeded/<PROP>-<N>,
# run the property's quick check against it, then remove the agent's worktree.
P="$1"; N="${2:-3}"
cd /verif
tools/seed_verify.sh "$P" "/tmp/seed-${P}r$N" "$P-$N" 2>&1 | grep '^SEED' 
if [[ -d seeded/$P-$N ]]; then
  tools/run_seeded.sh "$P-$N" 2>&1 | tail -2
  git -C /repo worktree remove --force "/tmp/seed-${P}r$N" 2>/dev/null; rm -rf "/tmp/seed-${P}r$N"
fi
