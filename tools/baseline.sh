#!/bin/bash
# Runs the repository's pinned test suite (guard OFF: no build tags) on a tree
# (default /repo) and compares the set of passing tests with /root/.vp/BASELINE.json.
# usage: tools/baseline.sh [repo-dir]
set -u
REPO="${1:-/repo}"
export GOFLAGS=-mod=mod GOPROXY=off
OUT="$(mktemp)"
( cd "$REPO" && go test -json -vet=off -count=1 -timeout 25m ./... ) > "$OUT" 2>&1
python3 - "$OUT" <<'PY'
import json,sys
passed=set(); failed=set()
for line in open(sys.argv[1],errors='replace'):
    line=line.strip()
    if not line.startswith('{'): continue
    try: e=json.loads(line)
    except Exception: continue
    if e.get('Test'):
        k=e['Package']+'::'+e['Test']
        if e.get('Action')=='pass': passed.add(k)
        elif e.get('Action')=='fail': failed.add(k)
try:
    base=set(json.load(open('/root/.vp/BASELINE.json'))['stable_pass'])
except Exception as ex:
    print('cannot read BASELINE.json:',ex); base=set()
missing=sorted(base-passed)
print(f'baseline: {len(base)} expected, {len(passed)} passed, {len(failed)} failed, {len(missing)} expected-but-not-passed')
for m in missing[:50]: print('  NOT PASSED:',m)
for m in sorted(failed)[:50]: print('  FAILED:',m)
sys.exit(1 if missing or failed else 0)
PY
rc=$?
rm -f "$OUT"
exit $rc
