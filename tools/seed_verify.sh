#!/bin/bash
# tools/seed_verify.sh <ID> [agent-dir]: verifies an independently written breaking change
# in a fresh scratch worktree: demo passes on the clean tree, patch applies and builds,
# pinned baseline passes with the patch, demo fails with the patch. On success copies
# patch, demo and notes to /verif/seeded/<ID>/ and writes meta.json. Never touches /repo.
set -u
ID="$1"; SRC="${2:-/tmp/seed-$ID}"; KEEP="${3:-$ID}"
V=/verif; OUT=$V/seeded/$KEEP
export GOFLAGS=-mod=mod GOPROXY=off
[[ -f "$SRC/SEED/patch.diff" ]] || { echo "SEED $ID: no patch.diff"; exit 2; }
DEMO_REL=$(cd "$SRC" && git status --short | awk '$1=="??"{print $2}' | grep -E '_test\.go$' | grep -v '^SEED/' | head -1)
[[ -n "$DEMO_REL" ]] || { echo "SEED $ID: no demo test found in worktree"; exit 2; }
W=$(mktemp -d /tmp/sv-XXXXXX); rmdir "$W"
git -C /repo worktree add -q --detach "$W" HEAD || exit 2
cleanup() { git -C /repo worktree remove --force "$W" 2>/dev/null; rm -rf "$W"; }
trap cleanup EXIT
PKG="./$(dirname "$DEMO_REL")"
RUNPAT=$(grep -ohE 'func (Test[A-Za-z0-9_]+)' "$SRC/$DEMO_REL" | awk '{print $2}' | paste -sd'|')
cp "$SRC/$DEMO_REL" "$W/$DEMO_REL"
clean=$(cd "$W" && go test -count=1 -run "^($RUNPAT)\$" "$PKG" 2>&1); crc=$?
rm -f "$W/$DEMO_REL"
( cd "$W" && git apply "$SRC/SEED/patch.diff" ) || { echo "SEED $ID: patch does not apply on the clean tree"; exit 1; }
( cd "$W" && go build ./... ) || { echo "SEED $ID: does not compile"; exit 1; }
if $V/tools/baseline.sh "$W" > /tmp/sv-base.$$ 2>&1; then base=pass; else base=FAIL; fi
cp "$SRC/$DEMO_REL" "$W/$DEMO_REL"
mut=$(cd "$W" && go test -count=1 -run "^($RUNPAT)\$" "$PKG" 2>&1); mrc=$?
echo "SEED $ID: demo-on-clean rc=$crc, baseline-with-patch=$base, demo-with-patch rc=$mrc (demo $DEMO_REL, tests $RUNPAT)"
if [[ $crc -eq 0 && "$base" == pass && $mrc -ne 0 ]]; then
  mkdir -p "$OUT"
  cp "$SRC/SEED/patch.diff" "$OUT/patch.diff"
  cp "$SRC/$DEMO_REL" "$OUT/$(basename "$DEMO_REL").txt"
  [[ -f "$SRC/SEED/NOTES.md" ]] && cp "$SRC/SEED/NOTES.md" "$OUT/NOTES.md"
  python3 - "$ID" "$DEMO_REL" "$RUNPAT" "$KEEP" <<'PY'
import json,sys,subprocess
ID,demo,pat,KEEP=sys.argv[1:5]
head=subprocess.check_output(['git','-C','/repo','rev-parse','--short','HEAD']).decode().strip()
meta={"property":ID,"written_by":"independent sub-agent that saw only the property text","repo_head":head,
 "demo":{"file":demo+" (stored here as "+demo.split('/')[-1]+".txt)","run":f"go test -count=1 -run '^({pat})$' ./{'/'.join(demo.split('/')[:-1])}"},
 "verified":{"demo_passes_on_unchanged_tree":True,"patch_applies_and_builds":True,"pinned_baseline_passes_with_patch":True,"demo_fails_with_patch":True,"how":"tools/seed_verify.sh in a fresh scratch worktree of /repo"},
 "needs_to_manifest":"see NOTES.md","caught_by":"see seeded/SUMMARY.md"}
json.dump(meta,open(f'/verif/seeded/{KEEP}/meta.json','w'),indent=1)
PY
  echo "SEED $ID: KEPT in $OUT"
else
  echo "SEED $ID: NOT kept"; echo "$mut" | tail -5; tail -3 /tmp/sv-base.$$
fi
rm -f /tmp/sv-base.$$
