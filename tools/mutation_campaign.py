#!/usr/bin/env python3
"""tools/mutation_campaign.py --per-file N [--seed S] [--files f1,f2] [--out mutants/CAMPAIGN.jsonl]

Sensitivity experiment (never touches /repo): samples first-order source mutants
(.work/gomutate) of the files the properties are anchored in, applies each to ONE
scratch worktree, and asks in turn
  1. does it compile?                       no  -> discarded
  2. does the repository's own suite pass?  no  -> killed by the existing tests (not "realistic")
  3. does a mapped quick check report a VIOLATION?  (checks tried in the listed order; stops at the first)
Survivors of 2 and 3 are appended to the output for manual triage (equivalent mutant,
outside the 20 properties, or a gap in a check).
"""
import argparse, hashlib, json, os, random, shutil, subprocess, sys, tempfile, time

V = os.path.dirname(os.path.dirname(os.path.abspath(__file__)))
ENV = dict(os.environ, GOFLAGS='-mod=mod', GOPROXY='off')
MAP = {
    'storage/memory/memory.go': ['C02', 'C01', 'C09', 'C07'],
    'storage/memoization/memoization.go': ['C19'],
    'storage/storage.go': ['C19', 'C09'],
    'bql/planner/planner.go': ['C03', 'C10', 'C04', 'C12', 'C11', 'C13', 'C08', 'C14', 'C20'],
    'bql/planner/data_access.go': ['C03', 'C10', 'C14', 'C09', 'C08'],
    'bql/table/table.go': ['C11', 'C12', 'C10', 'C03', 'C13', 'C14'],
    'bql/semantic/expression.go': ['C13', 'C08'],
    'bql/semantic/hooks.go': ['C18', 'C03', 'C12', 'C11', 'C13', 'C04', 'C10', 'C08'],
    'bql/semantic/semantic.go': ['C03', 'C04', 'C12', 'C11', 'C18', 'C08'],
    'bql/semantic/convert.go': ['C03', 'C18', 'C08'],
    'bql/lexer/lexer.go': ['C16', 'C18', 'C08'],
    'bql/grammar/grammar.go': ['C17', 'C18', 'C03'],
    'bql/grammar/parser.go': ['C18', 'C17', 'C08'],
    'bql/grammar/llk.go': ['C18', 'C08'],
    'triple/node/node.go': ['C05', 'C15', 'C06'],
    'triple/predicate/predicate.go': ['C05', 'C15', 'C06'],
    'triple/literal/literal.go': ['C05', 'C15', 'C06'],
    'triple/triple.go': ['C05', 'C15', 'C06', 'C01'],
    'io/io.go': ['C05', 'C15'],
}


def sh(cmd, cwd=None, timeout=None, env=ENV):
    try:
        p = subprocess.run(cmd, cwd=cwd, env=env, stdout=subprocess.PIPE, stderr=subprocess.STDOUT, timeout=timeout, text=True, errors='replace')
        return p.returncode, p.stdout
    except subprocess.TimeoutExpired as e:
        return 124, (e.stdout or '') if isinstance(e.stdout, str) else ''


def main():
    ap = argparse.ArgumentParser()
    ap.add_argument('--per-file', type=int, default=5)
    ap.add_argument('--seed', type=int, default=1)
    ap.add_argument('--files', default='')
    ap.add_argument('--out', default=os.path.join(V, 'mutants', 'CAMPAIGN.jsonl'))
    ap.add_argument('--shard', default='0/1', help='i/n: take every n-th mutant of the sampled list, starting at i')
    ap.add_argument('--done', default='', help='comma separated result files whose mutants are skipped')
    a = ap.parse_args()
    files = [f for f in a.files.split(',') if f] or list(MAP)
    os.makedirs(os.path.join(V, '.work'), exist_ok=True)
    rc, _ = sh(['go', 'build', '-o', os.path.join(V, '.work', 'gomutate'), './cmd/gomutate'], cwd=os.path.join(V, 'harness'))
    assert rc == 0
    done = set()
    for f in [a.out] + [x for x in a.done.split(',') if x]:
        if not os.path.exists(f):
            continue
        for l in open(f):
            try:
                d = json.loads(l)
                done.add((d['file'], d['start'], d['repl']))
            except Exception:
                pass
    W = tempfile.mkdtemp(prefix='mc-', dir='/tmp')
    os.rmdir(W)
    assert sh(['git', '-C', '/repo', 'worktree', 'add', '-q', '--detach', W, 'HEAD'])[0] == 0
    try:
        rng = random.Random(a.seed)
        todo = []
        for f in files:
            rc, out = sh([os.path.join(V, '.work', 'gomutate'), os.path.join('/repo', f), f])
            ms = json.loads(out)
            rng.shuffle(ms)
            todo += [m for m in ms if (m['file'], m['start'], m['repl']) not in done][:a.per_file]
        si, sn = [int(x) for x in a.shard.split('/')]
        todo = [m for k, m in enumerate(todo) if k % sn == si]
        for i, m in enumerate(todo):
            path = os.path.join(W, m['file'])
            src = open(os.path.join('/repo', m['file']), 'rb').read()
            assert src[m['start']:m['end']].decode() == m['orig']
            open(path, 'wb').write(src[:m['start']] + m['repl'].encode() + src[m['end']:])
            t0 = time.time()
            res = dict(m, outcome='', caught_by='', tried=[])
            rc, out = sh(['go', 'build', './...'], cwd=W, timeout=300)
            if rc == 0:
                rc, out = sh(['go', 'vet', './' + os.path.dirname(m['file'])], cwd=W, timeout=300)
                rc = 0  # vet is informational
            else:
                res['outcome'] = 'uncompilable'
            if not res['outcome']:
                rc, out = sh(['go', 'test', '-vet=off', '-count=1', '-timeout', '240s', './...'], cwd=W, timeout=600)
                if rc != 0:
                    res['outcome'] = 'killed-by-suite'
            if not res['outcome']:
                res['outcome'] = 'survived'
                for p in MAP[m['file']]:
                    rc, out = sh([os.path.join(V, 'check'), p, '--tier', 'quick'], cwd=V, env=dict(ENV, VERIF_REPO=W), timeout=3600)
                    res['tried'].append([p, rc])
                    if rc == 1 and 'VIOLATION' in out:
                        res['outcome'] = 'caught'
                        res['caught_by'] = p
                        for l in out.splitlines():
                            if 'violation:' in l:
                                res['message'] = l.strip()[:300]
                                break
                        break
            res['wall_s'] = round(time.time() - t0, 1)
            sh(['git', 'checkout', '--', m['file']], cwd=W)
            with open(a.out, 'a') as fh:
                fh.write(json.dumps(res) + '\n')
            print(f"[{i+1}/{len(todo)}] {m['file']}:{m['line']} {m['func']} {m['op']} -> {res['outcome']} {res['caught_by']} ({res['wall_s']}s)", flush=True)
            sh(['bash', '-c', f'rm -f {V}/replays/*/found-*.json'])
    finally:
        sh(['git', '-C', '/repo', 'worktree', 'remove', '--force', W])
        shutil.rmtree(W, ignore_errors=True)
        h = hashlib.sha1(W.encode()).hexdigest()[:8]
        sh(['bash', '-c', f'rm -rf {V}/.work/build/{h}*'])


if __name__ == '__main__':
    main()
