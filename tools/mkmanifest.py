#!/usr/bin/env python3
"""Regenerates /verif/MANIFEST.json from harness/units.json (claimed checks) and
properties.jsonl (everything else goes under not_applicable with its reason)."""
import json, os
V = os.path.dirname(os.path.dirname(os.path.abspath(__file__)))
units = json.load(open(os.path.join(V, 'harness', 'units.json')))
props = [json.loads(l) for l in open(os.path.join(V, 'properties.jsonl')) if l.strip()]
na_reasons = {}
p = os.path.join(V, 'tools', 'not_applicable.json')
if os.path.exists(p):
    na_reasons = json.load(open(p))
checks, na = [], []
for pr in props:
    pid = pr['id']
    if pid in units:
        u = units[pid]
        checks.append({
            'property_id': pid,
            'quick_cmd': f'./check {pid} --tier quick',
            'thorough_cmd': f'./check {pid} --tier thorough',
            'evidence_file': f'/verif/evidence/{pid}.json',
            'replay_cmd_template': f'./check {pid} --replay {{path}}',
            'engine': 'harness',
            'level_claimed': {'category': u['level'], 'text': u['level_text'], 'design_ref': f'DESIGN.md §4 {pid}'},
            'level_note': u['level_note'],
            'technique': u['technique'],
        })
    else:
        na.append({'property_id': pid, 'reason': na_reasons.get(pid, 'check not built yet in this session (planned: see DESIGN.md §4); not claimed until it runs green')})
m = {
    'version': 1,
    'setup_cmd': './check --build-only --race-too',
    'hooks': {
        'guard': 'verif',
        'enable': 'go build tag "verif" (go test -tags verif); no guarded source exists in /repo: all instrumentation is done through pure storage.Store/Graph wrappers in /verif/harness',
        'baseline_off_cmd': 'tools/baseline.sh /repo',
        'source_commits': [],
        'add_only': True,
    },
    'engines': [{'name': 'harness', 'path': '/verif/harness', 'serves_properties': sorted(units.keys()),
                 'kind_free_text': 'Go test binary (pgregory.net/rapid v1.3.0 generators + small-scope enumerations + fault/gate storage wrappers), sharded over 16 processes by the python driver ./check'}],
    'checks': checks,
    'notes': 'Exit 0 = held on everything explored (KNOWN-FINDING lines allowed), 1 = VIOLATION line(s), 2 = infrastructure (never a violation). known_findings.json is read-only at run time. VERIF_SEED selects the rapid seeds of all shards.',
    'not_applicable': na,
}
json.dump(m, open(os.path.join(V, 'MANIFEST.json'), 'w'), indent=1)
print('checks:', [c['property_id'] for c in checks], 'not_applicable:', [n['property_id'] for n in na])
