#!/bin/bash
# tools/run_all.sh [tier] [seed]: runs every registered check once; prints one line per property.
cd "$(dirname "$(readlink -f "$0")")/.."
tier="${1:-quick}"; seed="${2:-1}"; shift 2 2>/dev/null
props="$*"; [[ -z "$props" ]] && props=$(python3 -c "import json;print(' '.join(c['property_id'] for c in json.load(open('MANIFEST.json'))['checks']))")
for p in $props; do
  t0=$(date +%s)
  out=$(VERIF_SEED=$seed ./check $p --tier $tier 2>&1); rc=$?
  echo "$p tier=$tier seed=$seed exit=$rc $(( $(date +%s)-t0 ))s $(echo "$out" | grep -c '^VIOLATION') violations $(echo "$out" | grep -c '^KNOWN-FINDING') known | $(echo "$out" | grep -m1 'INFRASTRUCTURE\|violation:' | cut -c1-160)"
done
