#!/bin/bash
# tools/mutant.sh <patch-file | revert:<commit>> <PROP>[,<PROP>...] [--no-baseline]
# Applies a change to a scratch worktree of /repo (never to /repo), runs the pinned
# baseline on it and then the listed quick checks against it (VERIF_REPO). Removes the
# worktree and its build output afterwards. Prints one summary line per check.
set -u
CH="$1"; PROPS="$2"; NOBASE="${3:-}"
[[ -f "$CH" ]] && CH="$(readlink -f "$CH")"
V="$(dirname "$(dirname "$(readlink -f "$0")")")"
W=$(mktemp -d /tmp/mw-XXXXXX)
git -C /repo worktree add -q --detach "$W" HEAD || exit 2
cleanup() { git -C /repo worktree remove --force "$W" 2>/dev/null; rm -rf "$W"; rm -rf $V/.work/build/$(python3 -c "import hashlib,sys;print(hashlib.sha1(sys.argv[1].encode()).hexdigest()[:8])" "$W")*; }
trap cleanup EXIT
if [[ "$CH" == revert:* ]]; then
  ( cd "$W" && git revert --no-commit "${CH#revert:}" >/dev/null 2>&1 ) || { echo "MUTANT $CH: revert does not apply"; exit 2; }
else
  ( cd "$W" && git apply "$CH" ) || { echo "MUTANT $CH: patch does not apply"; exit 2; }
fi
( cd "$W" && GOFLAGS=-mod=mod GOPROXY=off go build ./... ) || { echo "MUTANT $CH: does not compile"; exit 2; }
if [[ "$NOBASE" != "--no-baseline" ]]; then
  if $V/tools/baseline.sh "$W" >/tmp/mw-base.$$ 2>&1; then echo "MUTANT $CH: baseline passes (realistic)"; else echo "MUTANT $CH: baseline FAILS (not realistic)"; tail -5 /tmp/mw-base.$$; fi
  rm -f /tmp/mw-base.$$
fi
IFS=, read -ra PS <<< "$PROPS"
for p in "${PS[@]}"; do
  out=$(VERIF_REPO="$W" $V/check "$p" --tier quick 2>&1); rc=$?
  v=$(echo "$out" | grep -c '^VIOLATION')
  echo "MUTANT $CH check $p: exit=$rc violations=$v $(echo "$out" | grep -m1 'violation:' | cut -c1-220)"
done
# drop replays the mutant run produced
rm -f $V/replays/*/found-*.json
