// Package gram analyses the exported BQL grammar tables and provides reference
// recognisers written independently of the parser: a general (memoised top-down)
// recogniser of L(START), a greedy predictive recogniser, witness/sentence
// generators and token-kind -> text concretisation.
package gram

import (
	"fmt"
	"sort"
	"strings"

	"github.com/google/badwolf/bql/grammar"
	"github.com/google/badwolf/bql/lexer"
	"github.com/google/badwolf/bql/semantic"
)

// Elem is a grammar element: a non-terminal (Sym != "") or a token.
type Elem struct {
	Sym string
	Tok lexer.TokenType
}

func (e Elem) String() string {
	if e.Sym != "" {
		return e.Sym
	}
	return "'" + e.Tok.String() + "'"
}

// Table is rule -> ordered alternatives.
type Table map[string][][]Elem

// FromGrammar copies the exported table.
func FromGrammar(g *grammar.Grammar) Table {
	t := Table{}
	for sym, clauses := range *g {
		alts := make([][]Elem, 0, len(clauses))
		for _, c := range clauses {
			var alt []Elem
			for _, e := range c.Elements {
				if e.Symbol() != "" {
					alt = append(alt, Elem{Sym: string(e.Symbol())})
				} else {
					alt = append(alt, Elem{Tok: e.Token()})
				}
			}
			alts = append(alts, alt)
		}
		t[string(sym)] = alts
	}
	return t
}

// Rules returns the sorted rule names.
func (t Table) Rules() []string {
	var r []string
	for s := range t {
		r = append(r, s)
	}
	sort.Strings(r)
	return r
}

// StaticProblems checks the structural part of C17 on one table.
func (t Table) StaticProblems() []string {
	var probs []string
	for _, r := range t.Rules() {
		alts := t[r]
		if len(alts) == 0 {
			probs = append(probs, fmt.Sprintf("rule %s has no alternative", r))
		}
		first := map[lexer.TokenType]int{}
		empties := 0
		for i, a := range alts {
			if len(a) == 0 {
				empties++
				if i != len(alts)-1 {
					probs = append(probs, fmt.Sprintf("rule %s: empty alternative #%d is not the last one tried (alternatives after it are unreachable)", r, i))
				}
				continue
			}
			if a[0].Sym != "" {
				probs = append(probs, fmt.Sprintf("rule %s alternative #%d does not start with a token (%s)", r, i, a[0]))
				continue
			}
			if j, dup := first[a[0].Tok]; dup {
				probs = append(probs, fmt.Sprintf("rule %s: alternatives #%d and #%d both start with token %s (the later one is unreachable)", r, j, i, a[0].Tok))
			} else {
				first[a[0].Tok] = i
			}
			for _, e := range a {
				if e.Sym != "" {
					if _, ok := t[e.Sym]; !ok {
						probs = append(probs, fmt.Sprintf("rule %s alternative #%d references undefined rule %s", r, i, e.Sym))
					}
				}
			}
		}
		if empties > 1 {
			probs = append(probs, fmt.Sprintf("rule %s has %d empty alternatives", r, empties))
		}
	}
	if _, ok := t["START"]; !ok {
		probs = append(probs, "no START rule")
		return probs
	}
	// reachability
	reach := map[string]bool{"START": true}
	work := []string{"START"}
	for len(work) > 0 {
		r := work[len(work)-1]
		work = work[:len(work)-1]
		for _, a := range t[r] {
			for _, e := range a {
				if e.Sym != "" && !reach[e.Sym] {
					reach[e.Sym] = true
					work = append(work, e.Sym)
				}
			}
		}
	}
	for _, r := range t.Rules() {
		if !reach[r] {
			probs = append(probs, fmt.Sprintf("rule %s is not reachable from START", r))
		}
	}
	// productivity (least fixpoint)
	min := t.MinLengths()
	for _, r := range t.Rules() {
		if _, ok := min[r]; !ok {
			probs = append(probs, fmt.Sprintf("rule %s derives no finite statement", r))
		}
	}
	return probs
}

// Diff lists differences between two tables (rules and element-wise alternatives).
func Diff(a, b Table, an, bn string) []string {
	var probs []string
	for _, r := range a.Rules() {
		if _, ok := b[r]; !ok {
			probs = append(probs, fmt.Sprintf("rule %s exists in %s but not in %s", r, an, bn))
		}
	}
	for _, r := range b.Rules() {
		ba := b[r]
		aa, ok := a[r]
		if !ok {
			probs = append(probs, fmt.Sprintf("rule %s exists in %s but not in %s", r, bn, an))
			continue
		}
		if len(aa) != len(ba) {
			probs = append(probs, fmt.Sprintf("rule %s has %d alternatives in %s and %d in %s", r, len(aa), an, len(ba), bn))
			continue
		}
		for i := range aa {
			if fmt.Sprint(aa[i]) != fmt.Sprint(ba[i]) {
				probs = append(probs, fmt.Sprintf("rule %s alternative #%d differs: %v in %s, %v in %s", r, i, aa[i], an, ba[i], bn))
			}
		}
	}
	return probs
}

// MinLengths returns, per productive rule, the length of its shortest sentence.
func (t Table) MinLengths() map[string]int {
	min := map[string]int{}
	for changed := true; changed; {
		changed = false
		for r, alts := range t {
			for _, a := range alts {
				n, ok := 0, true
				for _, e := range a {
					if e.Sym == "" {
						n++
					} else if m, has := min[e.Sym]; has {
						n += m
					} else {
						ok = false
						break
					}
				}
				if ok {
					if cur, has := min[r]; !has || n < cur {
						min[r] = n
						changed = true
					}
				}
			}
		}
	}
	return min
}

func (t Table) altLen(a []Elem, min map[string]int) (int, bool) {
	n := 0
	for _, e := range a {
		if e.Sym == "" {
			n++
		} else if m, ok := min[e.Sym]; ok {
			n += m
		} else {
			return 0, false
		}
	}
	return n, true
}

// PathItem is one (rule, alternative) choice of a derivation, in pre-order.
type PathItem struct {
	Rule string
	Alt  int
}

func (t Table) bestAlt(sym string, min map[string]int) int {
	best, bestN := -1, 0
	for i, a := range t[sym] {
		if n, ok := t.altLen(a, min); ok && (best < 0 || n < bestN) {
			best, bestN = i, n
		}
	}
	return best
}

// MinSentence derives the shortest token sequence of a rule (ties: first
// alternative) and appends the choices made to path.
func (t Table) MinSentence(sym string, min map[string]int, path *[]PathItem) []lexer.TokenType {
	best := t.bestAlt(sym, min)
	if best < 0 {
		return nil
	}
	if path != nil {
		*path = append(*path, PathItem{sym, best})
	}
	return t.ExpandAlt(t[sym][best], min, path)
}

// ExpandAlt expands one alternative with shortest sub-derivations.
func (t Table) ExpandAlt(a []Elem, min map[string]int, path *[]PathItem) []lexer.TokenType {
	var out []lexer.TokenType
	for _, e := range a {
		if e.Sym == "" {
			out = append(out, e.Tok)
		} else {
			out = append(out, t.MinSentence(e.Sym, min, path)...)
		}
	}
	return out
}

// Step is one link of a chain from START down to a rule: in alternative Alt of
// Rule, the element at Pos is the next rule of the chain.
type Step struct {
	Rule string
	Alt  int
	Pos  int
}

// Chains computes, for every reachable rule, a shortest chain of steps from START.
func (t Table) Chains(min map[string]int) map[string][]Step {
	chains := map[string][]Step{"START": nil}
	queue := []string{"START"}
	for len(queue) > 0 {
		r := queue[0]
		queue = queue[1:]
		for ai, a := range t[r] {
			if _, ok := t.altLen(a, min); !ok {
				continue
			}
			for i, e := range a {
				if e.Sym == "" {
					continue
				}
				if _, seen := chains[e.Sym]; seen {
					continue
				}
				chains[e.Sym] = append(append([]Step{}, chains[r]...), Step{r, ai, i})
				queue = append(queue, e.Sym)
			}
		}
	}
	return chains
}

// DeriveVia derives a sentence from START that follows chain down to target and
// takes alternative alt there; everything else is expanded minimally. The
// choices are appended to path in pre-order.
func (t Table) DeriveVia(chain []Step, target string, alt int, min map[string]int, path *[]PathItem) []lexer.TokenType {
	if len(chain) == 0 {
		*path = append(*path, PathItem{target, alt})
		return t.ExpandAlt(t[target][alt], min, path)
	}
	st := chain[0]
	*path = append(*path, PathItem{st.Rule, st.Alt})
	var out []lexer.TokenType
	for i, e := range t[st.Rule][st.Alt] {
		switch {
		case e.Sym == "":
			out = append(out, e.Tok)
		case i == st.Pos:
			out = append(out, t.DeriveVia(chain[1:], target, alt, min, path)...)
		default:
			out = append(out, t.MinSentence(e.Sym, min, path)...)
		}
	}
	return out
}

// Chooser picks an index in [0,n) (rapid-driven or deterministic).
type Chooser func(n int, label string) int

// RandomSentence derives a sentence from sym, choosing alternatives with ch;
// beyond maxDepth only shortest alternatives are taken. path records the
// (rule, alternative) pairs used.
func (t Table) RandomSentence(sym string, depth, maxDepth int, min map[string]int, ch Chooser, path *[]PathItem) []lexer.TokenType {
	alts := t[sym]
	var idx int
	if depth >= maxDepth {
		best, bestN := -1, 0
		for i, a := range alts {
			if n, ok := t.altLen(a, min); ok && (best < 0 || n < bestN) {
				best, bestN = i, n
			}
		}
		idx = best
	} else {
		var ok []int
		for i, a := range alts {
			if _, p := t.altLen(a, min); p {
				ok = append(ok, i)
			}
		}
		idx = ok[ch(len(ok), "alt:"+sym)]
	}
	if path != nil {
		*path = append(*path, PathItem{sym, idx})
	}
	var out []lexer.TokenType
	for _, e := range alts[idx] {
		if e.Sym == "" {
			out = append(out, e.Tok)
		} else {
			out = append(out, t.RandomSentence(e.Sym, depth+1, maxDepth, min, ch, path)...)
		}
	}
	return out
}

// ---- reference recognisers ----

// Derives tells whether toks ∈ L(sym): memoised top-down (no left recursion
// because every non-empty alternative starts with a token).
func (t Table) Derives(sym string, toks []lexer.TokenType) bool {
	type key struct {
		s string
		i int
	}
	memo := map[key]map[int]bool{}
	var ends func(s string, i int) map[int]bool
	var seqEnds func(a []Elem, i int) map[int]bool
	seqEnds = func(a []Elem, i int) map[int]bool {
		cur := map[int]bool{i: true}
		for _, e := range a {
			next := map[int]bool{}
			for p := range cur {
				if e.Sym == "" {
					if p < len(toks) && toks[p] == e.Tok {
						next[p+1] = true
					}
				} else {
					for q := range ends(e.Sym, p) {
						next[q] = true
					}
				}
			}
			cur = next
			if len(cur) == 0 {
				break
			}
		}
		return cur
	}
	ends = func(s string, i int) map[int]bool {
		k := key{s, i}
		if m, ok := memo[k]; ok {
			return m
		}
		res := map[int]bool{}
		memo[k] = res // provisional (cycles cannot consume nothing forever: non-empty alts start with a token)
		for _, a := range t[s] {
			for q := range seqEnds(a, i) {
				res[q] = true
			}
		}
		return res
	}
	return ends(sym, 0)[len(toks)]
}

// GreedyAccepts simulates a predictive parse in which a rule takes the first
// alternative whose first token is the next token, or its empty alternative
// otherwise, and requires end of input after START.
func (t Table) GreedyAccepts(toks []lexer.TokenType) bool {
	pos := 0
	cur := func() lexer.TokenType {
		if pos < len(toks) {
			return toks[pos]
		}
		return lexer.ItemEOF
	}
	var consume func(sym string) bool
	consume = func(sym string) bool {
		alts := t[sym]
		hasEmpty := false
		for _, a := range alts {
			if len(a) == 0 {
				hasEmpty = true
				continue
			}
			if a[0].Sym == "" && a[0].Tok == cur() && pos < len(toks) {
				for _, e := range a {
					if e.Sym == "" {
						if pos >= len(toks) || toks[pos] != e.Tok {
							return false
						}
						pos++
					} else if !consume(e.Sym) {
						return false
					}
				}
				return true
			}
		}
		return hasEmpty
	}
	return consume("START") && pos == len(toks)
}

// ---- token kinds -> text ----

// AllKinds lists every token kind except EOF and ERROR.
func AllKinds() []lexer.TokenType {
	var out []lexer.TokenType
	for k := lexer.ItemQuery; k <= lexer.ItemFilterFunction; k++ {
		out = append(out, k)
	}
	return out
}

var fixedLexeme = map[lexer.TokenType]string{
	lexer.ItemQuery: "select", lexer.ItemInsert: "insert", lexer.ItemDelete: "delete", lexer.ItemCreate: "create",
	lexer.ItemConstruct: "construct", lexer.ItemDeconstruct: "deconstruct", lexer.ItemDrop: "drop", lexer.ItemGraph: "graph",
	lexer.ItemData: "data", lexer.ItemInto: "into", lexer.ItemFrom: "from", lexer.ItemWhere: "where", lexer.ItemAs: "as",
	lexer.ItemType: "type", lexer.ItemID: "id", lexer.ItemAt: "at", lexer.ItemIn: "in", lexer.ItemBefore: "before",
	lexer.ItemAfter: "after", lexer.ItemBetween: "between", lexer.ItemCount: "count", lexer.ItemDistinct: "distinct",
	lexer.ItemSum: "sum", lexer.ItemGroup: "group", lexer.ItemBy: "by", lexer.ItemOrder: "order", lexer.ItemHaving: "having",
	lexer.ItemAsc: "asc", lexer.ItemDesc: "desc", lexer.ItemLimit: "limit", lexer.ItemBinding: "?x", lexer.ItemNode: "/u<a>",
	lexer.ItemBlankNode: "_:v", lexer.ItemLiteral: "\"1\"^^type:int64", lexer.ItemPredicate: "\"p\"@[]",
	lexer.ItemLBracket: "{", lexer.ItemRBracket: "}", lexer.ItemLPar: "(", lexer.ItemRPar: ")", lexer.ItemDot: ".",
	lexer.ItemSemicolon: ";", lexer.ItemComma: ",", lexer.ItemLT: "<", lexer.ItemGT: ">", lexer.ItemEQ: "=", lexer.ItemNot: "not",
	lexer.ItemAnd: "and", lexer.ItemOr: "or", lexer.ItemShow: "show", lexer.ItemGraphs: "graphs", lexer.ItemOptional: "optional",
	lexer.ItemFilter: "filter",
}

// Concretise turns token kinds into text (space separated) using
// context-dependent lexemes; the caller must verify by lexing that the text
// maps back to the same kinds (some sequences are unrealisable).
func Concretise(kinds []lexer.TokenType) string {
	var parts []string
	prev := lexer.ItemEOF
	for i, k := range kinds {
		var s string
		timeCtx := prev == lexer.ItemBefore || prev == lexer.ItemAfter || prev == lexer.ItemBetween
		switch k {
		case lexer.ItemPredicateBound:
			if timeCtx {
				s = "2006-01-02T15:04:05Z,2007-01-02T15:04:05Z"
			} else {
				s = "\"p\"@[2006-01-02T15:04:05Z,2007-01-02T15:04:05Z]"
			}
		case lexer.ItemTime:
			s = "2006-01-02T15:04:05Z"
		case lexer.ItemFilterFunction:
			s = "latest"
		case lexer.ItemBinding:
			s = fmt.Sprintf("?b%d", i%3)
		default:
			s = fixedLexeme[k]
		}
		if prev == lexer.ItemFilterFunction && len(parts) > 0 {
			// a filter function name must be followed directly by its parenthesis
			parts[len(parts)-1] += s
		} else {
			parts = append(parts, s)
		}
		prev = k
	}
	return strings.Join(parts, " ")
}

// Kinds lexes text and returns the token kinds before the terminal token, and
// whether the lexer ended with EOF (as opposed to ERROR).
func Kinds(text string) ([]lexer.TokenType, bool) {
	var out []lexer.TokenType
	ok := false
	for t := range lexer.New(text, 16) {
		switch t.Type {
		case lexer.ItemEOF:
			ok = true
		case lexer.ItemError:
			ok = false
		default:
			out = append(out, t.Type)
		}
	}
	return out, ok
}

// SameKinds compares two kind sequences.
func SameKinds(a, b []lexer.TokenType) bool {
	if len(a) != len(b) {
		return false
	}
	for i := range a {
		if a[i] != b[i] {
			return false
		}
	}
	return true
}

// ParseAccepts runs the real parser over text with grammar g.
func ParseAccepts(g *grammar.Grammar, text string) (accepted bool, st *semantic.Statement, err error) {
	p, perr := grammar.NewParser(g)
	if perr != nil {
		return false, nil, perr
	}
	st = &semantic.Statement{}
	if e := p.Parse(grammar.NewLLk(text, 1), st); e != nil {
		return false, st, nil
	}
	return true, st, nil
}

// KindNames renders kinds.
func KindNames(k []lexer.TokenType) string {
	var p []string
	for _, x := range k {
		p = append(p, x.String())
	}
	return strings.Join(p, " ")
}

// ---- long sentences: pumping the loops of the grammar ----

// Loop is an alternative of Rule one of whose elements (at Pos) can derive Rule
// again (directly: the element is Rule; indirectly: through Via, a chain of steps
// from that element's rule down to Rule).
type Loop struct {
	Rule string
	Alt  int
	Pos  int
	Via  []Step
}

// chainFrom returns a shortest chain of steps from rule start down to rule target
// (nil, true when start == target).
func (t Table) chainFrom(start, target string, min map[string]int) ([]Step, bool) {
	if start == target {
		return nil, true
	}
	chains := map[string][]Step{start: nil}
	queue := []string{start}
	for len(queue) > 0 {
		r := queue[0]
		queue = queue[1:]
		for ai, a := range t[r] {
			if _, ok := t.altLen(a, min); !ok {
				continue
			}
			for i, e := range a {
				if e.Sym == "" {
					continue
				}
				if _, seen := chains[e.Sym]; seen {
					continue
				}
				chains[e.Sym] = append(append([]Step{}, chains[r]...), Step{r, ai, i})
				if e.Sym == target {
					return chains[e.Sym], true
				}
				queue = append(queue, e.Sym)
			}
		}
	}
	return nil, false
}

// Loops lists every (rule, alternative, position) through which a rule derives itself.
func (t Table) Loops(min map[string]int) []Loop {
	var out []Loop
	for _, r := range t.Rules() {
		for ai, a := range t[r] {
			if _, ok := t.altLen(a, min); !ok {
				continue
			}
			for i, e := range a {
				if e.Sym == "" {
					continue
				}
				if via, ok := t.chainFrom(e.Sym, r, min); ok {
					out = append(out, Loop{Rule: r, Alt: ai, Pos: i, Via: via})
				}
			}
		}
	}
	return out
}

// via derives from the first rule of chain down to its end, where inner() is
// spliced in; every other symbol is expanded minimally.
func (t Table) via(chain []Step, min map[string]int, inner func() []lexer.TokenType) []lexer.TokenType {
	if len(chain) == 0 {
		return inner()
	}
	st := chain[0]
	var out []lexer.TokenType
	for i, e := range t[st.Rule][st.Alt] {
		switch {
		case e.Sym == "":
			out = append(out, e.Tok)
		case i == st.Pos:
			out = append(out, t.via(chain[1:], min, inner)...)
		default:
			out = append(out, t.MinSentence(e.Sym, min, nil)...)
		}
	}
	return out
}

// Pumped derives a sentence from START that reaches l.Rule along toRule and goes
// n times round the loop l before finishing minimally.
func (t Table) Pumped(toRule []Step, l Loop, n int, min map[string]int) []lexer.TokenType {
	var round func(k int) []lexer.TokenType
	round = func(k int) []lexer.TokenType {
		if k == 0 {
			return t.MinSentence(l.Rule, min, nil)
		}
		var out []lexer.TokenType
		for i, e := range t[l.Rule][l.Alt] {
			switch {
			case e.Sym == "":
				out = append(out, e.Tok)
			case i == l.Pos:
				out = append(out, t.via(l.Via, min, func() []lexer.TokenType { return round(k - 1) })...)
			default:
				out = append(out, t.MinSentence(e.Sym, min, nil)...)
			}
		}
		return out
	}
	return t.via(toRule, min, func() []lexer.TokenType { return round(n) })
}
