package isolate

import "syscall"

var sigQuit = syscall.SIGQUIT
