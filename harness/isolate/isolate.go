// Package isolate runs the system under test in a child process (the same test
// binary re-executed with VERIF_WORKER=<handler>) so that a panic in a goroutine
// the engine starts, a log.Fatalf, or a hang becomes an ordinary failing
// verdict of the parent property and shrinks like one. It also provides the
// goroutine-leak probe.
package isolate

import (
	"bufio"
	"bytes"
	"encoding/json"
	"fmt"
	"io"
	"os"
	"os/exec"
	"regexp"
	"runtime"
	"strconv"
	"strings"
	"sync"
	"time"
)

// Handler processes one request inside the worker.
type Handler func(req []byte) (resp []byte)

var handlers = map[string]Handler{}

// Register installs a worker handler; call from init().
func Register(name string, h Handler) { handlers[name] = h }

// ServeIfWorker runs the worker loop when VERIF_WORKER is set; returns true if
// this process was a worker (and is now done).
func ServeIfWorker() bool {
	name := os.Getenv("VERIF_WORKER")
	if name == "" {
		return false
	}
	h := handlers[name]
	if h == nil {
		fmt.Fprintf(os.Stderr, "no worker handler %q\n", name)
		os.Exit(3)
	}
	in := bufio.NewReaderSize(os.Stdin, 1<<20)
	out := bufio.NewWriter(os.Stdout)
	for {
		line, err := in.ReadBytes('\n')
		if len(line) > 0 {
			resp := h(bytes.TrimRight(line, "\n"))
			resp = bytes.ReplaceAll(resp, []byte("\n"), []byte(" "))
			out.Write(resp)
			out.WriteByte('\n')
			out.Flush()
		}
		if err != nil {
			return true
		}
	}
}

type worker struct {
	cmd    *exec.Cmd
	stdin  io.WriteCloser
	stdout *bufio.Reader
	stderr *tailBuf
	lines  chan []byte
}

type tailBuf struct {
	mu sync.Mutex
	b  []byte
}

func (t *tailBuf) Write(p []byte) (int, error) {
	t.mu.Lock()
	defer t.mu.Unlock()
	t.b = append(t.b, p...)
	if len(t.b) > 16384 {
		t.b = t.b[len(t.b)-16384:]
	}
	return len(p), nil
}

func (t *tailBuf) String() string {
	t.mu.Lock()
	defer t.mu.Unlock()
	return string(t.b)
}

var (
	poolMu sync.Mutex
	pool   = map[string]*worker{}
	// Spawned counts worker starts (reported in evidence).
	Spawned int
)

func spawn(name string) (*worker, error) {
	cmd := exec.Command(os.Args[0], "-test.run", "^$")
	cmd.Env = append(os.Environ(), "VERIF_WORKER="+name)
	stdin, err := cmd.StdinPipe()
	if err != nil {
		return nil, err
	}
	stdout, err := cmd.StdoutPipe()
	if err != nil {
		return nil, err
	}
	tb := &tailBuf{}
	cmd.Stderr = tb
	if err := cmd.Start(); err != nil {
		return nil, err
	}
	Spawned++
	w := &worker{cmd: cmd, stdin: stdin, stdout: bufio.NewReaderSize(stdout, 1<<20), stderr: tb, lines: make(chan []byte, 1)}
	go func() {
		for {
			line, err := w.stdout.ReadBytes('\n')
			if err != nil {
				close(w.lines)
				return
			}
			w.lines <- line
		}
	}()
	return w, nil
}

func (w *worker) kill() {
	w.stdin.Close()
	if w.cmd.Process != nil {
		w.cmd.Process.Kill()
	}
	w.cmd.Wait()
}

// Outcome of one isolated call.
type Outcome struct {
	Resp    []byte
	Crashed bool   // worker died before answering
	Hung    bool   // no answer within the bound (worker killed)
	Stderr  string // tail of the worker's stderr when Crashed or Hung
}

// Call sends req to the worker for handler name and waits for the verdict.
func Call(name string, req []byte, timeout time.Duration) (Outcome, error) {
	poolMu.Lock()
	defer poolMu.Unlock()
	w := pool[name]
	if w == nil {
		var err error
		w, err = spawn(name)
		if err != nil {
			return Outcome{}, fmt.Errorf("cannot start worker: %w", err)
		}
		pool[name] = w
	}
	req = bytes.ReplaceAll(req, []byte("\n"), []byte(" "))
	if _, err := w.stdin.Write(append(req, '\n')); err != nil {
		delete(pool, name)
		st := w.stderr.String()
		w.kill()
		return Outcome{Crashed: true, Stderr: st}, nil
	}
	select {
	case line, ok := <-w.lines:
		if !ok {
			delete(pool, name)
			w.cmd.Wait()
			return Outcome{Crashed: true, Stderr: w.stderr.String()}, nil
		}
		return Outcome{Resp: bytes.TrimRight(line, "\n")}, nil
	case <-time.After(timeout):
		delete(pool, name)
		// ask for a goroutine dump before killing
		if w.cmd.Process != nil {
			w.cmd.Process.Signal(sigQuit)
			time.Sleep(200 * time.Millisecond)
		}
		st := w.stderr.String()
		w.kill()
		return Outcome{Hung: true, Stderr: st}, nil
	}
}

// CallJSON marshals req, calls, and unmarshals the verdict into resp.
func CallJSON(name string, req interface{}, resp interface{}, timeout time.Duration) (Outcome, error) {
	b, err := json.Marshal(req)
	if err != nil {
		return Outcome{}, err
	}
	o, err := Call(name, b, timeout)
	if err != nil || o.Crashed || o.Hung {
		return o, err
	}
	if err := json.Unmarshal(o.Resp, resp); err != nil {
		return o, fmt.Errorf("worker reply is not JSON: %q", string(o.Resp))
	}
	return o, nil
}

// Shutdown stops all workers.
func Shutdown() {
	poolMu.Lock()
	defer poolMu.Unlock()
	for n, w := range pool {
		w.kill()
		delete(pool, n)
	}
}

// ---- goroutine leak probe ----

var goroutineHeader = regexp.MustCompile(`(?m)^goroutine (\d+) \[([^\]]*)\]:$`)

// Goroutines returns id -> stack text for all goroutines.
func Goroutines() map[int]string {
	buf := make([]byte, 1<<20)
	for {
		n := runtime.Stack(buf, true)
		if n < len(buf) {
			buf = buf[:n]
			break
		}
		buf = make([]byte, 2*len(buf))
	}
	res := map[int]string{}
	for _, blk := range strings.Split(string(buf), "\n\n") {
		m := goroutineHeader.FindStringSubmatch(blk)
		if m == nil {
			continue
		}
		id, _ := strconv.Atoi(m[1])
		res[id] = blk
	}
	return res
}

// Baseline records the goroutine ids alive now.
func Baseline() map[int]bool {
	b := map[int]bool{}
	for id := range Goroutines() {
		b[id] = true
	}
	return b
}

// Leaked polls until no goroutine created after the baseline has a frame in
// the badwolf module; returns the stacks that remain after the grace period.
func Leaked(base map[int]bool, tries int, pause time.Duration) []string {
	var left []string
	for i := 0; i < tries; i++ {
		left = left[:0]
		for id, st := range Goroutines() {
			if base[id] {
				continue
			}
			if strings.Contains(st, "github.com/google/badwolf/") {
				left = append(left, st)
			}
		}
		if len(left) == 0 {
			return nil
		}
		time.Sleep(pause)
	}
	return left
}
