package props

// C08 — any statement text yields a table or an error: no crash, hang or leak.

import (
	"fmt"
	"strings"
	"testing"
	"unicode/utf8"

	"verif/harness/bq"
	"verif/harness/gen"
	"verif/harness/gram"
	"verif/harness/model"
	"verif/harness/pbt"

	"github.com/google/badwolf/bql/grammar"
	"github.com/google/badwolf/bql/lexer"
	"pgregory.net/rapid"
)

type c08Case struct {
	Store string `json:"store"` // empty | empty-graphs | populated
	Text  string `json:"text"`
	Src   string `json:"src"`
	Chan  int    `json:"chan,omitempty"`
	Bulk  int    `json:"bulk,omitempty"`
}

func c08Data() bq.Dataset {
	ua, ub, uc := model.NodeSpec{Type: "/u", ID: "a"}, model.NodeSpec{Type: "/u", ID: "b"}, model.NodeSpec{Type: "/u", ID: "c"}
	t0 := model.TimeSpec{Sec: bq.BaseSec}
	t1 := model.TimeSpec{Sec: bq.BaseSec + 86400, Nsec: 500000000}
	p, q := model.PredSpec{ID: "p"}, model.PredSpec{ID: "q", Anchor: &t0}
	q1 := model.PredSpec{ID: "q", Anchor: &t1}
	return bq.Dataset{
		"?g0": {
			{S: ua, P: p, O: model.ObjSpec{N: &ub}}, {S: ub, P: p, O: model.ObjSpec{N: &uc}},
			{S: ua, P: q, O: model.ObjSpec{L: &model.LitSpec{Kind: "int64", I: 3}}}, {S: ub, P: q1, O: model.ObjSpec{L: &model.LitSpec{Kind: "int64", I: -5}}},
			{S: ua, P: model.PredSpec{ID: "knows"}, O: model.ObjSpec{L: &model.LitSpec{Kind: "text", S: "x"}}},
			{S: uc, P: p, O: model.ObjSpec{P: &q}}, {S: uc, P: q1, O: model.ObjSpec{L: &model.LitSpec{Kind: "float64", F: 0x3ff8000000000000}}},
		},
		"?g1": {{S: ua, P: p, O: model.ObjSpec{N: &ub}}},
	}
}

func c08Graphs(store string) []GraphSpec {
	switch store {
	case "empty":
		return nil
	case "empty-graphs":
		return []GraphSpec{{Name: "?g0"}, {Name: "?g1"}}
	}
	return datasetGraphs(c08Data())
}

var c08Hostile = map[lexer.TokenType][]string{
	lexer.ItemBinding:        {"?a", "?b", "?x", "?g0", "?g1", "?zz", "?t"},
	lexer.ItemNode:           {"/u<a>", "/u<b>", "/t<é>", "/_<x>", "/u<model s>"},
	lexer.ItemBlankNode:      {"_:v", "_:w"},
	lexer.ItemLiteral:        {`"1"^^type:int64`, `"-1"^^type:int64`, `"1"^^type:INT64`, `"x"^^type:blob`, `""^^type:blob`, `"true"^^type:bool`, `"1.5"^^type:float64`, `"x"^^type:text`, `"9999999999999999999"^^type:int64`, `"10"^^type:int64`, `"[1 2]"^^type:blob`, `"yes"^^type:bool`},
	lexer.ItemPredicate:      {`"p"@[]`, `"q"@[2006-01-02T15:04:05Z]`, `"p"@[?t]`, `"q"@[?t]`, `"p"@["2006-01-02T15:04:05Z"]`, `"q"@[2006]`, `""@[]`},
	lexer.ItemPredicateBound: {`"q"@[,]`, `"q"@[2006-01-02T15:04:05Z,2007-01-02T15:04:05Z]`, `"q"@[?a,?b]`, `"q"@[?t,]`, `"q"@[,?t]`, `"q"@[2007-01-02T15:04:05Z,2006-01-02T15:04:05Z]`},
	lexer.ItemTime:           {"2006-01-02T15:04:05Z", "2006", "1", "2006-01-02T15:04:05.999999999+01:00"},
	lexer.ItemFilterFunction: {"latest", "isTemporal", "isImmutable", "foo"},
}

func concretiseHostile(t *rapid.T, kinds []lexer.TokenType) string {
	base := strings.Fields(gram.Concretise(kinds))
	// Concretise joins a filter function with the next token; rebuild per kind instead
	var parts []string
	prev := lexer.ItemEOF
	for i, k := range kinds {
		s := ""
		pool := c08Hostile[k]
		timeCtx := prev == lexer.ItemBefore || prev == lexer.ItemAfter || prev == lexer.ItemBetween
		switch {
		case k == lexer.ItemPredicateBound && timeCtx:
			s = gen.Pick(t, []string{"2006-01-02T15:04:05Z,2007-01-02T15:04:05Z", "2007-01-02T15:04:05Z, 2006-01-02T15:04:05Z", "1,2", "2006-01-02T15:04:05Z,"}, "tb")
		case len(pool) > 0:
			s = gen.Pick(t, pool, "lexeme")
		default:
			s = gram.Concretise([]lexer.TokenType{k})
		}
		if prev == lexer.ItemFilterFunction && len(parts) > 0 {
			parts[len(parts)-1] += s
		} else {
			parts = append(parts, s)
		}
		prev = k
		_ = i
	}
	_ = base
	return strings.Join(parts, " ")
}

var c08Table gram.Table
var c08Min map[string]int

func genC08(t *rapid.T) c08Case {
	if c08Table == nil {
		c08Table = gram.FromGrammar(grammar.BQL())
		c08Min = c08Table.MinLengths()
	}
	c := c08Case{Store: gen.Pick(t, []string{"empty", "empty-graphs", "populated", "populated"}, "store")}
	c.Chan = gen.Pick(t, []int{0, 0, 1, 3}, "chan")
	c.Bulk = gen.Pick(t, []int{0, 1, 2, 10}, "bulk")
	u := bq.DefaultUniverse()
	u.Nodes = u.Nodes[:3]
	data := c08Data()
	var visible []model.TripleSpec
	for _, cd := range bq.Candidates(data, []string{"?g0", "?g1"}) {
		visible = append(visible, cd.Triple)
	}
	g := &bq.QGen{T: t, U: u, Data: visible}
	graphs := func(label string) []string {
		pool := []string{"?g0", "?g1", "?g0", "?missing"}
		n := 1 + gen.Uniform(t, 2, label+"n")
		var out []string
		for i := 0; i < n; i++ {
			out = append(out, gen.Pick(t, pool, label))
		}
		return out
	}
	switch k := gen.Uniform(t, 100, "src"); {
	case k < 30:
		c.Src = "select"
		c.Text = g.GenSelectLoose(graphs("from")).String()
	case k < 42:
		c.Src = "construct"
		c.Text = g.GenConstructLoose(graphs("from"), graphs("into"), gen.Maybe(t, 40, "de")).String()
	case k < 50:
		c.Src = "data"
		switch gen.Uniform(t, 5, "dk") {
		case 0:
			c.Text = bq.GraphStmt{Drop: gen.Maybe(t, 50, "drop"), Graphs: graphs("gs")}.String()
		case 1:
			c.Text = "show graphs;"
		default:
			c.Text = g.GenDataLoose(graphs("dg"), gen.Maybe(t, 40, "del")).String()
		}
	case k < 75:
		c.Src = "grammar"
		ch := func(n int, label string) int { return gen.Uniform(t, n, label) }
		kinds := c08Table.RandomSentence("START", 0, 2+gen.Uniform(t, 5, "depth"), c08Min, ch, nil)
		c.Text = concretiseHostile(t, kinds)
	case k < 92:
		c.Src = "mutated"
		var base string
		switch gen.Uniform(t, 3, "mbase") {
		case 0:
			base = g.GenSelectLoose(graphs("from")).String()
		case 1:
			base = gen.Pick(t, c16Valid, "valid")
		default:
			base = g.GenConstructLoose(graphs("from"), graphs("into"), false).String()
		}
		sp := tokenSpans(base)
		n := 1 + gen.Uniform(t, 2, "nmut")
		for i := 0; i < n && len(sp) > 1; i++ {
			k := gen.Uniform(t, len(sp)-1, "tok")
			switch gen.Uniform(t, 5, "mk") {
			case 0: // delete a token
				base = base[:sp[k][0]] + base[sp[k][1]:]
			case 1: // duplicate a token
				base = base[:sp[k][1]] + " " + base[sp[k][0]:sp[k][1]] + base[sp[k][1]:]
			case 2: // truncate
				base = base[:sp[k][0]]
			case 3: // replace by a hostile lexeme
				kinds := gram.AllKinds()
				kk := gen.Pick(t, kinds, "rk")
				base = base[:sp[k][0]] + concretiseHostile(t, []lexer.TokenType{kk}) + base[sp[k][1]:]
			default: // swap with next
				if k+1 < len(sp)-1 {
					base = base[:sp[k][0]] + base[sp[k+1][0]:sp[k+1][1]] + base[sp[k][1]:sp[k+1][0]] + base[sp[k][0]:sp[k][1]] + base[sp[k+1][1]:]
				}
			}
			sp = tokenSpans(base)
		}
		c.Text = base
	default:
		c.Src = "random"
		if gen.Maybe(t, 50, "bytes") {
			c.Text = string(rapid.SliceOfN(rapid.Byte(), 0, 40).Draw(t, "bytes"))
		} else {
			c.Text = genStatementish(t)
		}
	}
	return c
}

// c08KnownCrash matches a text/crash against the open C08 findings.
func c08Check(ctx *pbt.Ctx, c c08Case) error {
	ctx.Label("src:" + c.Src)
	ctx.Label("store:" + c.Store)
	out, err := runBQL(BQLReq{Graphs: c08Graphs(c.Store), Runs: []RunSpec{{Text: c.Text, ChanSize: c.Chan, BulkSize: c.Bulk}}, Leak: true})
	if err != nil {
		return err
	}
	if out.Crashed {
		return fmt.Errorf("the process died executing %q on the %s store: %s", c.Text, c.Store, lastLines(out.Stderr, 14))
	}
	if out.Hung {
		return fmt.Errorf("no result within %v and, run again in a fresh worker, within %v executing %q on the %s store: %s", bqlHang, bqlHangConfirm, c.Text, c.Store, lastLines(out.Stderr, 14))
	}
	res := out.Resp.Results[0]
	ctx.Label("stage:" + res.Stage)
	if res.Panic != "" {
		return fmt.Errorf("panic executing %q on the %s store (stage %s): %s", c.Text, c.Store, res.Stage, res.Panic)
	}
	if res.Stage == "ok" && res.NilTable {
		return fmt.Errorf("%q on the %s store returned neither a table nor an error", c.Text, c.Store)
	}
	if res.Stage != "ok" && res.Err == "" {
		return fmt.Errorf("%q stopped at stage %s without an error", c.Text, res.Stage)
	}
	if len(res.Leaked) > 0 {
		return fmt.Errorf("goroutines started for %q (stage %s, err %q) are still running after it returned: %s", c.Text, res.Stage, res.Err, strings.Join(res.Leaked, " || "))
	}
	// non-trivial: got past the first token and was accepted or rejected after >= 3 tokens
	if utf8.ValidString(c.Text) {
		n := len(tokenSpans(c.Text)) - 1
		if res.Stage != "parse" || n >= 3 {
			ctx.Nontrivial()
		}
	}
	return nil
}

func TestC08(t *testing.T) {
	pbt.Run(t, "C08", "TestC08", genC08, c08Check)
}

// ---- exhaustive token sequences (one representative lexeme each) ----

func TestC08Exh(t *testing.T) {
	if pbt.ReplayPath() != "" {
		pbt.Run(t, "C08", "TestC08Exh", func(*rapid.T) c08Case { return c08Case{} }, c08Check)
		return
	}
	shard, nsh := pbt.Shard()
	maxLen := 2
	if pbt.Thorough() {
		maxLen = 3
	}
	all := gram.AllKinds()
	stores := []string{"empty", "populated"}
	idx := 0
	var rec func(prefix []lexer.TokenType, depth int)
	rec = func(prefix []lexer.TokenType, depth int) {
		idx++
		if idx%nsh == shard && depth > 0 {
			text := gram.Concretise(prefix)
			if back, clean := gram.Kinds(text); clean && gram.SameKinds(back, prefix) {
				for _, st := range stores {
					pbt.Eval(t, "C08", "TestC08Exh", c08Case{Store: st, Text: text, Src: "exhaustive"}, c08Check)
				}
			} else {
				pbt.AddExtra("TestC08Exh", "unrealisable", 1)
			}
		}
		if depth == maxLen {
			return
		}
		for _, k := range all {
			rec(append(append([]lexer.TokenType{}, prefix...), k), depth+1)
		}
	}
	rec(nil, 0)
	pbt.SetExhaustive("TestC08Exh")
	pbt.SetExtra("TestC08Exh", "max_len", maxLen)
}
