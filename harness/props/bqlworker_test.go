package props

// Execution of BQL text in a child process through the same pipeline as
// tools/vcli/bw/run.BQL (parse with a fresh SemanticBQL parser, plan, execute),
// with crash/hang containment and the goroutine-leak probe.

import (
	"context"
	"fmt"
	"runtime"
	"runtime/debug"
	"sort"
	"strings"
	"time"

	"verif/harness/bq"
	"verif/harness/isolate"
	"verif/harness/model"
	"verif/harness/wrapstore"

	"github.com/google/badwolf/bql/grammar"
	"github.com/google/badwolf/bql/planner"
	"github.com/google/badwolf/bql/semantic"
	"github.com/google/badwolf/bql/table"
	"github.com/google/badwolf/storage"
	"github.com/google/badwolf/storage/memory"
	"github.com/google/badwolf/triple"
)

// GraphSpec is the initial content of one graph.
type GraphSpec struct {
	Name    string             `json:"name"`
	Triples []model.TripleSpec `json:"triples"`
}

// RunSpec is one statement execution.
type RunSpec struct {
	Text     string `json:"text"`
	ChanSize int    `json:"chan,omitempty"`
	BulkSize int    `json:"bulk,omitempty"`
	Procs    int    `json:"procs,omitempty"`
	Dump     bool   `json:"dump,omitempty"` // return the full store state after the run
}

// FaultSpec asks the worker to wrap the store in a fault injector (C20).
type FaultSpec struct {
	K     int `json:"k"`     // fail the K-th driver call (-1: record only)
	Elems int `json:"elems"` // deliver this many elements first
	// Persist: the driver stays down, every later call fails too
	Persist bool `json:"persist,omitempty"`
	Record  bool `json:"record,omitempty"`
}

// BQLReq is a worker request: build a store, then run the statements in order.
type BQLReq struct {
	Graphs []GraphSpec `json:"graphs"`
	Runs   []RunSpec   `json:"runs"`
	Leak   bool        `json:"leak,omitempty"`
	Fault  *FaultSpec  `json:"fault,omitempty"`
	// MaxTriples > 0: stop running further statements once a dumped state holds more triples.
	MaxTriples int `json:"max_triples,omitempty"`
}

// RunResult is the outcome of one statement.
type RunResult struct {
	Stage    string                        `json:"stage"` // parse plan exec ok
	Err      string                        `json:"err,omitempty"`
	Panic    string                        `json:"panic,omitempty"`
	NilTable bool                          `json:"nil_table,omitempty"`
	Cols     []string                      `json:"cols,omitempty"`
	Rows     [][]bq.Val                    `json:"rows,omitempty"`
	Leaked   []string                      `json:"leaked,omitempty"`
	State    map[string][]model.TripleSpec `json:"state,omitempty"`
	Names    []string                      `json:"names,omitempty"`
	Dumped   bool                          `json:"dumped,omitempty"`
	Micros   int64                         `json:"us,omitempty"`
	ReadOnly bool                          `json:"ro,omitempty"` // SELECT or SHOW
	// fault injection
	Calls      []string `json:"calls,omitempty"`
	CallElems  []int    `json:"call_elems,omitempty"`
	FaultFired bool     `json:"fault_fired,omitempty"`
	FaultCall  string   `json:"fault_call,omitempty"`
}

// BQLResp is the worker's answer.
type BQLResp struct {
	Results   []RunResult `json:"results"`
	Err       string      `json:"err,omitempty"`
	Truncated bool        `json:"truncated,omitempty"`
}

func cellVal(c *table.Cell) bq.Val {
	if c == nil {
		return bq.Null
	}
	switch {
	case c.S != nil:
		s := *c.S
		return bq.Val{Kind: 'S', S: &s}
	case c.N != nil:
		n := model.SpecOfNode(c.N)
		return bq.Val{Kind: 'N', N: &n}
	case c.P != nil:
		p := model.SpecOfPred(c.P)
		return bq.Val{Kind: 'P', P: &p}
	case c.L != nil:
		l := model.SpecOfLit(c.L)
		return bq.Val{Kind: 'L', L: &l}
	case c.T != nil:
		t := model.SpecOfTime(*c.T)
		return bq.Val{Kind: 'T', T: &t}
	}
	return bq.Null
}

func dumpStore(st storage.Store) (map[string][]model.TripleSpec, []string, error) {
	bg := context.Background()
	names, err := graphNames(st)
	if err != nil {
		return nil, nil, err
	}
	out := map[string][]model.TripleSpec{}
	for _, n := range names {
		g, err := st.Graph(bg, n)
		if err != nil {
			return nil, nil, err
		}
		ch := make(chan *triple.Triple, 1<<16)
		if err := g.Triples(bg, storage.DefaultLookup, ch); err != nil {
			return nil, nil, err
		}
		var ts []model.TripleSpec
		for t := range ch {
			ts = append(ts, model.SpecOfTriple(t))
		}
		sort.Slice(ts, func(i, j int) bool { return ts[i].Key() < ts[j].Key() })
		out[n] = ts
	}
	return out, names, nil
}

// execBQL mirrors run.BQL.
func execBQL(ctx context.Context, text string, st storage.Store, chanSize, bulkSize int) (res RunResult, tbl *table.Table) {
	res.Stage = "parse"
	defer func() {
		if r := recover(); r != nil {
			res.Panic = fmt.Sprintf("%v | %s", r, firstFrames(string(debug.Stack()), 14))
		}
	}()
	p, err := grammar.NewParser(grammar.SemanticBQL())
	if err != nil {
		res.Err = err.Error()
		return
	}
	stm := &semantic.Statement{}
	if err := p.Parse(grammar.NewLLk(text, 1), stm); err != nil {
		res.Err = err.Error()
		return
	}
	res.Stage = "plan"
	res.ReadOnly = stm.Type() == semantic.Query || stm.Type() == semantic.Show
	pln, err := planner.New(ctx, st, stm, chanSize, bulkSize, nil)
	if err != nil {
		res.Err = err.Error()
		return
	}
	res.Stage = "exec"
	t, err := pln.Execute(ctx)
	if err != nil {
		res.Err = err.Error()
		return
	}
	res.Stage = "ok"
	if t == nil {
		res.NilTable = true
		return
	}
	tbl = t
	return
}

func firstFrames(stack string, n int) string {
	lines := strings.Split(stack, "\n")
	var keep []string
	for _, l := range lines {
		if strings.Contains(l, "badwolf") || strings.Contains(l, "panic") {
			keep = append(keep, strings.TrimSpace(l))
		}
		if len(keep) >= n {
			break
		}
	}
	return strings.Join(keep, " <- ")
}

var storePool = map[string]storage.Store{}

// pooledStore returns a store holding exactly the given graphs and triples.
func pooledStore(graphs []GraphSpec) (storage.Store, error) {
	bg := context.Background()
	if len(graphs) == 0 {
		return memory.NewStore(), nil
	}
	var names []string
	for _, g := range graphs {
		names = append(names, g.Name)
	}
	sort.Strings(names)
	key := strings.Join(names, "\x00")
	st := storePool[key]
	if st != nil {
		// usable only if it still has exactly these graphs
		have, err := graphNames(st)
		if err != nil || strings.Join(have, "\x00") != key {
			st = nil
		}
	}
	if st == nil {
		st = memory.NewStore()
		for _, n := range names {
			if _, err := st.NewGraph(bg, n); err != nil {
				return nil, err
			}
		}
		if len(storePool) > 16 {
			storePool = map[string]storage.Store{}
		}
		storePool[key] = st
	}
	for _, g := range graphs {
		gr, err := st.Graph(bg, g.Name)
		if err != nil {
			return nil, err
		}
		ch := make(chan *triple.Triple, 1<<16)
		if err := gr.Triples(bg, storage.DefaultLookup, ch); err != nil {
			return nil, err
		}
		var old []*triple.Triple
		for t := range ch {
			old = append(old, t)
		}
		if err := gr.RemoveTriples(bg, old); err != nil {
			return nil, err
		}
		var ts []*triple.Triple
		for _, t := range g.Triples {
			ts = append(ts, t.MustTriple())
		}
		if err := gr.AddTriples(bg, ts); err != nil {
			return nil, err
		}
	}
	return st, nil
}

func handleBQL(req []byte) []byte {
	var r BQLReq
	if err := jsonUnmarshal(req, &r); err != nil {
		return jsonMarshal(BQLResp{Err: "bad request: " + err.Error()})
	}
	bg := context.Background()
	// Building a memory graph is very expensive (~100 ms: it pre-allocates seven
	// maps of 10000 entries), so stores are pooled per set of graph names and
	// reset to the requested content by removing what they hold.
	st, err := pooledStore(r.Graphs)
	if err != nil {
		return jsonMarshal(BQLResp{Err: "setup: " + err.Error()})
	}
	plain := st
	var rec *wrapstore.Recorder
	var fat *wrapstore.FaultAt
	if r.Fault != nil {
		if r.Fault.Record {
			rec = &wrapstore.Recorder{}
			st = wrapstore.New(plain, rec)
		} else {
			fat = &wrapstore.FaultAt{K: r.Fault.K, Elems: r.Fault.Elems, Persist: r.Fault.Persist}
			st = wrapstore.New(plain, fat)
		}
	}
	var resp BQLResp
	for _, run := range r.Runs {
		if r.MaxTriples > 0 && len(resp.Results) > 0 {
			// stop a history whose data has grown beyond the bound (repeated CONSTRUCT
			// with FROM == INTO grows combinatorially); the caller checks the prefix
			last := resp.Results[len(resp.Results)-1]
			n := 0
			for _, ts := range last.State {
				n += len(ts)
			}
			if n > r.MaxTriples || len(last.Rows) > 4*r.MaxTriples {
				resp.Truncated = true
				break
			}
		}
		oldProcs := 0
		if run.Procs > 0 {
			oldProcs = runtime.GOMAXPROCS(run.Procs)
		}
		var base map[int]bool
		if r.Leak {
			base = isolate.Baseline()
		}
		t0 := time.Now()
		res, tbl := execBQL(bg, run.Text, st, run.ChanSize, run.BulkSize)
		res.Micros = time.Since(t0).Microseconds()

		if tbl != nil {
			func() {
				defer func() {
					if rr := recover(); rr != nil {
						res.Panic = fmt.Sprintf("while reading the result table: %v", rr)
					}
				}()
				res.Cols = append([]string{}, tbl.Bindings()...)
				for _, row := range tbl.Rows() {
					vals := make([]bq.Val, len(res.Cols))
					for i, c := range res.Cols {
						vals[i] = cellVal(row[c])
					}
					res.Rows = append(res.Rows, vals)
				}
			}()
		}
		if r.Leak {
			res.Leaked = isolate.Leaked(base, 60, 25*time.Millisecond)
			for i := range res.Leaked {
				res.Leaked[i] = firstFrames(res.Leaked[i], 8)
			}
		}
		if run.Dump {
			state, names, err := dumpStore(plain)
			if err != nil {
				res.Err += " | dump: " + err.Error()
			}
			res.State, res.Names, res.Dumped = state, names, err == nil
		}
		if rec != nil {
			for i, c := range rec.Calls {
				res.Calls = append(res.Calls, c.Method+"@"+c.Graph)
				res.CallElems = append(res.CallElems, rec.Elems[i])
			}
		}
		if fat != nil {
			res.FaultFired = fat.Fired
			res.FaultCall = fat.Hit.Method + "@" + fat.Hit.Graph
		}
		if oldProcs > 0 {
			runtime.GOMAXPROCS(oldProcs)
		}
		resp.Results = append(resp.Results, res)
	}
	return jsonMarshal(resp)
}

func init() {
	isolate.Register("bql", handleBQL)
}

const bqlHang = 20 * time.Second

// bqlHangConfirm bounds the second attempt after a first one exceeded bqlHang.
const bqlHangConfirm = 120 * time.Second

// Verdict of an isolated BQL request.
type bqlOutcome struct {
	Resp    BQLResp
	Crashed bool
	Hung    bool
	Stderr  string
	// SlowFirst: the first attempt exceeded bqlHang and the request was run again
	SlowFirst bool
}

// runBQL executes the request in the worker.
func runBQL(req BQLReq) (bqlOutcome, error) {
	var out bqlOutcome
	o, err := isolate.CallJSON("bql", req, &out.Resp, bqlHang)
	if err != nil {
		return out, fmt.Errorf("infrastructure: %v", err)
	}
	if o.Hung {
		// a time bound alone is no verdict on a busy machine: the same request once more, in a
		// fresh worker, with six times the bound; only a second silence counts as a hang
		out.Resp = BQLResp{}
		o, err = isolate.CallJSON("bql", req, &out.Resp, bqlHangConfirm)
		if err != nil {
			return out, fmt.Errorf("infrastructure: %v", err)
		}
		out.SlowFirst = true
	}
	out.Crashed, out.Hung, out.Stderr = o.Crashed, o.Hung, o.Stderr
	if !o.Crashed && !o.Hung && out.Resp.Err != "" {
		return out, fmt.Errorf("infrastructure: worker: %s", out.Resp.Err)
	}
	return out, nil
}

// rowKeys renders result rows as canonical keys in binding-name order.
func rowKeys(res RunResult) []string {
	idx := make([]int, len(res.Cols))
	for i := range idx {
		idx[i] = i
	}
	sort.Slice(idx, func(a, b int) bool { return res.Cols[idx[a]] < res.Cols[idx[b]] })
	out := make([]string, len(res.Rows))
	for r, row := range res.Rows {
		parts := make([]string, len(idx))
		for i, j := range idx {
			parts[i] = res.Cols[j] + "=" + row[j].Key()
		}
		out[r] = strings.Join(parts, " | ")
	}
	return out
}

// rowEnvs turns result rows into environments.
func rowEnvs(res RunResult) []bq.Env {
	out := make([]bq.Env, len(res.Rows))
	for r, row := range res.Rows {
		e := bq.Env{}
		for i, c := range res.Cols {
			e[c] = row[i]
		}
		out[r] = e
	}
	return out
}

func datasetGraphs(d bq.Dataset) []GraphSpec {
	var names []string
	for n := range d {
		names = append(names, n)
	}
	sort.Strings(names)
	var out []GraphSpec
	for _, n := range names {
		out = append(out, GraphSpec{Name: n, Triples: d[n]})
	}
	return out
}
