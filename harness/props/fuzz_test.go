package props

// Native coverage-guided fuzz targets (thorough tier only, time-boxed by the
// driver). They put the same semantic oracles inside the target as the rapid
// units; a crasher is saved by the Go fuzzing engine and turned into a replay
// file of the corresponding rapid unit by the driver.

import (
	"context"
	"testing"
	"unicode/utf8"

	"verif/harness/pbt"
)

func FuzzBQL(f *testing.F) {
	for _, s := range c16Valid {
		f.Add(s)
	}
	for _, s := range c18Pool {
		f.Add(s)
	}
	f.Add("select ?s from ?g0 where { ?s \"p\"@[] ?o . ?s \"q\"@[?lo,?hi] ?c };")
	f.Add("construct { ?s \"p\"@[] ?o ; \"q\"@[?t] ?o } into ?g1 from ?g0 where { ?s \"q\"@[?t] ?o };")
	f.Fuzz(func(t *testing.T, text string) {
		if len(text) > 400 {
			return
		}
		st, err := pooledStore(c08Graphs("populated"))
		if err != nil {
			t.Skip()
		}
		res, _ := execBQL(context.Background(), text, st, 0, 2)
		if res.Panic != "" {
			t.Fatalf("panic executing %q: %s", text, res.Panic)
		}
		if res.Stage == "ok" && res.NilTable {
			t.Fatalf("%q returned neither a table nor an error", text)
		}
		if res.Stage != "ok" && res.Err == "" {
			t.Fatalf("%q stopped at %s without an error", text, res.Stage)
		}
	})
}

func FuzzParsers(f *testing.F) {
	for _, s := range []string{"/u<a>", "_:v", "\"p\"@[]", "\"p\"@[2006-01-02T15:04:05Z]", "\"1\"^^type:int64", "\"[1 2]\"^^type:blob", "\"x\"^^type:text",
		"/u<a>\t\"p\"@[]\t/u<b>", "/u<a>\t\"p\"@[2006-01-02T15:04:05Z]\t\"x y\"^^type:text", "", "_", "\"@[", "\"\"^^type:blob"} {
		f.Add(s)
	}
	f.Fuzz(func(t *testing.T, in string) {
		if len(in) > 300 || !utf8.ValidString(in) {
			return
		}
		for _, p := range c15Parsers {
			if err := checkC15(pbt.NewCtx(), c15Case{Parser: p, In: in, Src: "fuzz"}); err != nil {
				t.Fatal(err)
			}
		}
	})
}

func FuzzLexer(f *testing.F) {
	for _, s := range c16Valid {
		f.Add(s)
	}
	for _, s := range c16Lexemes {
		f.Add(s + " ?x")
	}
	f.Fuzz(func(t *testing.T, in string) {
		if len(in) > 300 {
			return
		}
		var first []tok
		for i, c := range []int{0, 2} {
			toks := lexAll(in, c)
			if err := c16Structure(in, toks); err != nil {
				t.Fatal(err)
			}
			if i == 0 {
				first = toks
			} else if !sameToks(first, toks) {
				t.Fatalf("token sequence of %q depends on the channel capacity", in)
			}
		}
	})
}
