package props

// C12 — ORDER BY returns a correctly sorted permutation; LIMIT its first n rows.

import (
	"fmt"
	"strings"
	"testing"

	"verif/harness/bq"
	"verif/harness/gen"
	"verif/harness/model"
	"verif/harness/pbt"

	"pgregory.net/rapid"
)

type c12Case struct {
	Data     bq.Dataset  `json:"data"`
	From     []string    `json:"from"`
	Clauses  []bq.Clause `json:"clauses"`
	Grouped  bool        `json:"grouped,omitempty"`
	KeyIdx   []int       `json:"key_idx"` // ORDER BY keys: indexes into the output columns
	Dirs     []string    `json:"dirs"`
	Limit    int         `json:"limit"`     // -1: no LIMIT
	BadLimit string      `json:"bad_limit"` // non-empty: an invalid limit literal (must be rejected)
	NoOrder  bool        `json:"no_order,omitempty"`
	Excluded []string    `json:"excluded,omitempty"`
	Global   *bq.Global  `json:"global,omitempty"`
	AsAlias  []bool      `json:"as_alias,omitempty"`
	// Having: an optional HAVING comparison applied to BOTH queries (it decides which rows
	// qualify; ORDER BY and LIMIT must act on its result, not before it)
	HavingCol int            `json:"having_col,omitempty"`
	HavingCmp string         `json:"having_cmp,omitempty"`
	HavingLit *model.LitSpec `json:"having_lit,omitempty"`
	HavingNot bool           `json:"having_not,omitempty"`
}

// c12Data: negative and fractional numbers, floats differing after the 6th
// decimal and > 1e32, anchors in several zones and precisions, ties.
func c12Data(t *rapid.T) (bq.Dataset, bq.Universe) {
	u := bq.DefaultUniverse()
	u.Nodes = u.Nodes[:5]
	u.PredIDs = u.PredIDs[:3]
	// the last int64 values are neighbours beyond 2^53: they differ as integers but not as float64
	u.Lits = []model.LitSpec{{Kind: "int64", I: 1}, {Kind: "int64", I: -5}, {Kind: "int64", I: -20}, {Kind: "int64", I: 20}, {Kind: "int64", I: 1700000000000000001}, {Kind: "int64", I: 1700000000000000002}, {Kind: "int64", I: -9007199254740993},
		{Kind: "float64", F: 0x3ff8000000000000}, {Kind: "float64", F: 0xc002000000000000}, {Kind: "float64", F: 0x4024000000000000}, {Kind: "float64", F: 0x3ff000001ad7f29b}, {Kind: "float64", F: 0x3ff0000035afe535}, {Kind: "float64", F: 0x46c3b8b5b5056e17}, {Kind: "float64", F: 0xbfe0000000000000},
		{Kind: "text", S: "x"}, {Kind: "text", S: "model s"}, {Kind: "text", S: "a"}, {Kind: "text", S: "B"}, {Kind: "text", S: "a!"}}
	d := bq.Dataset{}
	ng := 1 + gen.Uniform(t, 2, "ngraphs")
	for g := 0; g < ng; g++ {
		name := bq.GraphNames[g]
		n := 3 + gen.Uniform(t, 12, "ntriples")
		seen := map[string]bool{}
		d[name] = []model.TripleSpec{}
		for i := 0; i < n; i++ {
			tr := model.TripleSpec{S: gen.Pick(t, u.Nodes, "s"), P: u.GenPred(t, "p")}
			switch k := gen.Uniform(t, 10, "ok"); {
			case k < 3:
				l := gen.Pick(t, u.Lits[:7], "oi")
				tr.O = model.ObjSpec{L: &l}
				tr.P.ID = "p"
			case k < 6:
				l := gen.Pick(t, u.Lits[7:14], "of")
				tr.O = model.ObjSpec{L: &l}
				tr.P.ID = "q"
			case k < 8:
				l := gen.Pick(t, u.Lits[14:], "ot")
				tr.O = model.ObjSpec{L: &l}
				tr.P.ID = "knows"
			default:
				tr.O = u.GenObj(t, "oany")
			}
			if !seen[tr.Key()] {
				seen[tr.Key()] = true
				d[name] = append(d[name], tr)
			}
		}
	}
	return d, u
}

func genC12(t *rapid.T) c12Case {
	d, u := c12Data(t)
	var c c12Case
	c.Data = d
	c.From = genFrom(t, d)
	var visible []model.TripleSpec
	for _, cd := range bq.Candidates(d, c.From) {
		visible = append(visible, cd.Triple)
	}
	g := &bq.QGen{T: t, U: u, Data: visible}
	n := 1 + gen.Uniform(t, 2, "nclauses")
	for i := 0; i < n; i++ {
		var cl bq.Clause
		switch gen.Uniform(t, 10, "shape") {
		case 0, 1, 2: // single scan clause (LIMIT push-down candidate), possibly with a row-dropping part
			cl = bq.Clause{S: bq.SPos{Binding: fmt.Sprintf("?s%d", i)}, P: bq.PPos{Binding: fmt.Sprintf("?p%d", i)}, O: bq.OPos{Binding: fmt.Sprintf("?o%d", i)}}
			switch gen.Uniform(t, 4, "drop") {
			case 0:
				cl.P = bq.PPos{AnchorID: gen.Pick(t, u.PredIDs, "aid"), AnchorB: fmt.Sprintf("?t%d", i)}
			case 1:
				cl.O.Type = fmt.Sprintf("?ot%d", i)
			case 2:
				cl.P.At = fmt.Sprintf("?at%d", i)
			}
		case 3, 4, 5, 6:
			p := model.PredSpec{ID: gen.Pick(t, u.PredIDs, "pid")}
			cl = bq.Clause{S: bq.SPos{Binding: fmt.Sprintf("?s%d", i)}, P: bq.PPos{Pred: &p}, O: bq.OPos{Binding: fmt.Sprintf("?o%d", i)}}
			if i > 0 && gen.Maybe(t, 50, "join") {
				cl.S.Binding = "?s0"
			}
			if gen.Maybe(t, 30, "sid") {
				cl.S.ID = fmt.Sprintf("?sid%d", i)
			}
		default:
			cl = g.GenClauseMixed(fmt.Sprintf("c%d", i), bq.ClauseOpts{})
		}
		c.Clauses = append(c.Clauses, cl)
	}
	if gen.Maybe(t, 20, "optional-clause") {
		// an OPTIONAL clause hung on the first subject binding (joined through the binding, its
		// ID or its TYPE): LIMIT and ORDER BY must not change what it contributes to a row
		oc := bq.Clause{Optional: true, S: bq.SPos{Binding: "?s0"}, P: bq.PPos{Binding: "?op"}, O: bq.OPos{Binding: "?oo"}}
		switch gen.Uniform(t, 4, "optional-join") {
		case 0:
			p := model.PredSpec{ID: gen.Pick(t, u.PredIDs, "opid")}
			oc.P = bq.PPos{Pred: &p}
		case 1:
			oc.S = bq.SPos{Binding: "?os", ID: "?sid0"}
			if len(c.Clauses) > 0 && c.Clauses[0].S.ID == "" {
				c.Clauses[0].S.ID = "?sid0"
			}
		case 2:
			oc.S = bq.SPos{Binding: "?os", Type: "?sty0"}
			if len(c.Clauses) > 0 && c.Clauses[0].S.Type == "" {
				c.Clauses[0].S.Type = "?sty0"
			}
		}
		c.Clauses = append(c.Clauses, oc)
	}
	if cs, renamed := avoidObjIDReuse(c.Clauses); renamed {
		c.Clauses = cs
		c.Excluded = append(c.Excluded, "KF-C03-OBJ-ID-UNCHECKED")
	}
	if cs, changed := avoidBindinglessClause(c.Clauses); changed {
		c.Clauses = cs
		c.Excluded = append(c.Excluded, "KF-C03-BINDINGLESS-CLAUSE")
	}
	c.Grouped = gen.Maybe(t, 20, "grouped")
	nk := 1 + gen.Uniform(t, 3, "nkeys")
	for i := 0; i < nk; i++ {
		c.KeyIdx = append(c.KeyIdx, gen.Uniform(t, 8, "key"))
		c.Dirs = append(c.Dirs, gen.Pick(t, []string{"", "asc", "desc"}, "dir"))
	}
	if gen.Maybe(t, 15, "repeatkey") {
		c.KeyIdx = append(c.KeyIdx, c.KeyIdx[0])
		c.Dirs = append(c.Dirs, c.Dirs[0])
	}
	c.NoOrder = gen.Maybe(t, 15, "noorder")
	c.Limit = -1
	if gen.Maybe(t, 60, "haslimit") {
		c.Limit = gen.Uniform(t, 8, "limit")
	}
	if gen.Maybe(t, 8, "badlimit") {
		c.BadLimit = gen.Pick(t, []string{`"-1"^^type:int64`, `"1.5"^^type:float64`, `"x"^^type:text`, `"true"^^type:bool`, `"9223372036854775808"^^type:int64`, `"3"^^type:INT64`, `"-9223372036854775808"^^type:int64`}, "bad")
	}
	for i := 0; i < 8; i++ {
		c.AsAlias = append(c.AsAlias, gen.Maybe(t, 25, "asalias"))
	}
	if gen.Maybe(t, 10, "hasglobal") {
		c.Global = g.GenGlobal()
	}
	if gen.Maybe(t, 30, "hashaving") {
		// compare an object column with a constant of the kind its predicate id mostly carries
		c.HavingCol = -1
		all := bq.AllBindings(c.Clauses)
		for _, cl := range c.Clauses {
			if cl.P.Pred == nil || cl.O.Binding == "" {
				continue
			}
			var pool []model.LitSpec
			switch cl.P.Pred.ID {
			case "p":
				pool = u.Lits[:7]
			case "q":
				pool = u.Lits[7:14]
			case "knows":
				pool = u.Lits[14:]
			}
			for i, b := range all {
				if b == cl.O.Binding && len(pool) > 0 {
					c.HavingCol = i
					l := gen.Pick(t, pool, "having-const")
					c.HavingLit = &l
				}
			}
			if c.HavingLit != nil {
				break
			}
		}
		if c.HavingLit != nil {
			c.HavingCmp = gen.Pick(t, []string{"<", ">", "=", ">", "<"}, "having-cmp")
			c.HavingNot = gen.Maybe(t, 20, "having-not")
		}
	}
	return c
}

// build returns the unordered query and the ordered/limited query.
func (c c12Case) build() (base, full bq.Query, keys []bq.OrderKey) {
	all := bq.AllBindings(c.Clauses)
	base.From, base.Clauses, base.Global = c.From, c.Clauses, c.Global
	if c.Grouped && len(all) > 1 && len(c.KeyIdx)%2 == 0 {
		// two grouping keys, selected in the opposite order of the GROUP BY list
		base.Proj = append(base.Proj, bq.Proj{Binding: all[1]}, bq.Proj{Binding: all[0]})
		base.GroupBy = []string{all[0], all[1]}
		base.Proj = append(base.Proj, bq.Proj{Binding: all[len(all)-1], Alias: "?cnt", Op: "count"})
	} else if c.Grouped && len(all) > 0 {
		k := all[0]
		p := bq.Proj{Binding: k}
		if len(c.AsAlias) > 0 && c.AsAlias[0] {
			p.Alias = "?k"
		}
		base.Proj = append(base.Proj, p)
		base.GroupBy = []string{p.OutName()}
		cnt := all[len(all)-1]
		base.Proj = append(base.Proj, bq.Proj{Binding: cnt, Alias: "?cnt", Op: "count"})
		if len(all) > 1 {
			base.Proj = append(base.Proj, bq.Proj{Binding: all[1], Alias: "?dst", Op: "countd"})
		}
	} else {
		for i, b := range all {
			p := bq.Proj{Binding: b}
			if i < len(c.AsAlias) && c.AsAlias[i] {
				p.Alias = fmt.Sprintf("?al%d", i)
			}
			base.Proj = append(base.Proj, p)
		}
	}
	if c.HavingLit != nil && !c.Grouped && c.HavingCol >= 0 && c.HavingCol < len(base.Proj) {
		e := &bq.Expr{Op: "cmp", Left: base.Proj[c.HavingCol].OutName(), Cmp: c.HavingCmp, RLit: c.HavingLit}
		if c.HavingNot {
			e = &bq.Expr{Op: "not", A: e}
		}
		base.Having = e
	}
	full = base
	full.Proj = append([]bq.Proj{}, base.Proj...)
	outs := outCols(base)
	if !c.NoOrder && len(outs) > 0 {
		dirOf := map[string]string{}
		for i, ki := range c.KeyIdx {
			col := outs[ki%len(outs)]
			dir := c.Dirs[i]
			// the parser rejects contradicting directions for a repeated key: repeat with the same one
			if d, seen := dirOf[col]; seen {
				dir = d
			}
			dirOf[col] = dir
			keys = append(keys, bq.OrderKey{Binding: col, Dir: dir})
		}
		full.OrderBy = keys
	}
	if c.BadLimit != "" {
		l := c.BadLimit
		full.Limit = &l
	} else if c.Limit >= 0 {
		l := fmt.Sprintf("\"%d\"^^type:int64", c.Limit)
		full.Limit = &l
	}
	return
}

// keyTuple renders the ORDER BY key values of a row; sortable reports whether
// every key column is of one sub-kind without NULL in the given rows.
func sortableColumns(rows []bq.Env, keys []bq.OrderKey) map[string]bool {
	ok := map[string]bool{}
	for _, k := range keys {
		kinds := map[string]bool{}
		for _, r := range rows {
			kinds[r[k.Binding].SubKind()] = true
		}
		ok[k.Binding] = len(kinds) <= 1 && !kinds["NULL"]
	}
	return ok
}

// cmpRows compares two rows under the key list; ok=false if some needed column is not sortable.
func cmpRows(a, b bq.Env, keys []bq.OrderKey, sortable map[string]bool) (int, bool) {
	for _, k := range keys {
		if !sortable[k.Binding] {
			return 0, false
		}
		c, ok := bq.CompareSameKind(a[k.Binding], b[k.Binding], true)
		if !ok {
			return 0, false
		}
		if k.Dir == "desc" {
			c = -c
		}
		if c != 0 {
			return c, true
		}
	}
	return 0, true
}

func dedupeKeys(keys []bq.OrderKey) []bq.OrderKey {
	seen := map[string]bool{}
	var out []bq.OrderKey
	for _, k := range keys {
		if !seen[k.Binding] {
			seen[k.Binding] = true
			out = append(out, k)
		}
	}
	return out
}

func checkC12(ctx *pbt.Ctx, c c12Case) error {
	for _, id := range c.Excluded {
		ctx.Excluded(id)
	}
	base, full, keys := c.build()
	if len(base.Proj) == 0 {
		ctx.Label("no-bindings")
		return nil
	}
	out, err := runBQL(BQLReq{Graphs: datasetGraphs(c.Data), Runs: []RunSpec{{Text: base.String()}, {Text: full.String()}}})
	if err != nil {
		return err
	}
	if out.Hung && !out.Crashed {
		ctx.Label("no-result-within-bound-twice(C08)")
		return nil // termination is C08's statement; this property cannot judge a run without a result
	}
	if out.Crashed || out.Hung {
		return fmt.Errorf("executing %q crashed=%v hung=%v: %s", full.String(), out.Crashed, out.Hung, lastLines(out.Stderr, 10))
	}
	bres, fres := out.Resp.Results[0], out.Resp.Results[1]
	if bres.Stage == "parse" {
		ctx.Label("rejected-by-parser")
		return nil
	}
	if bres.Stage != "ok" || bres.Panic != "" {
		ctx.Label("base-query-fails(C03/C11)")
		return nil
	}
	text := full.String()
	if fres.Panic != "" {
		return fmt.Errorf("%q panicked: %s", text, fres.Panic)
	}
	if c.BadLimit != "" {
		ctx.Label("invalid-limit")
		if fres.Stage == "ok" {
			return fmt.Errorf("%q: a limit that is not a non-negative int64 must be rejected, got a table with %d rows", text, len(fres.Rows))
		}
		ctx.Nontrivial()
		return nil
	}
	if fres.Stage != "ok" {
		return fmt.Errorf("%q fails (%s: %s) although the same query without ORDER BY/LIMIT returns %d rows", text, fres.Stage, fres.Err, len(bres.Rows))
	}
	U := rowEnvs(bres)
	R := rowEnvs(fres)
	cols := outCols(base)
	ukeys, rkeys := envKeys(U, cols), envKeys(R, cols)
	n := len(U)
	if c.Limit >= 0 && c.Limit < n {
		n = c.Limit
	}
	if len(R) != n {
		return fmt.Errorf("%q returns %d rows; without ORDER BY/LIMIT there are %d qualifying rows, so %d are expected\n data: %s", text, len(R), len(U), n, describeData(c.Data))
	}
	// sub-multiset (permutation when there is no LIMIT)
	cnt := map[string]int{}
	for _, k := range ukeys {
		cnt[k]++
	}
	for _, k := range rkeys {
		cnt[k]--
		if cnt[k] < 0 {
			return fmt.Errorf("%q returns the row {%s} more often than the query without ORDER BY/LIMIT does", text, k)
		}
	}
	if len(keys) == 0 {
		ctx.Label("limit-without-order")
		if c.Limit >= 0 && c.Limit < len(U) && c.Limit > 0 {
			ctx.Nontrivial()
		}
		return nil
	}
	repeated := len(dedupeKeys(keys)) != len(keys)
	if repeated {
		ctx.Label("repeated-key")
	}
	eff := dedupeKeys(keys) // a repeated key cannot change the order any more
	sortable := sortableColumns(U, eff)
	// sortedness of the result
	for i := 1; i < len(R); i++ {
		cmp, ok := cmpRows(R[i-1], R[i], eff, sortable)
		if !ok {
			break // a mixed-kind or NULL column is reached: nothing further is required
		}
		if cmp > 0 {
			return fmt.Errorf("%q: rows %d and %d are out of order under %v:\n  {%s}\n  {%s}", text, i-1, i, keys, rkeys[i-1], rkeys[i])
		}
	}
	// LIMIT with ORDER BY: key tuples equal the first n key tuples of the sorted U
	allSortable := true
	for _, k := range eff {
		allSortable = allSortable && sortable[k.Binding]
	}
	distinctTuples := map[string]bool{}
	var keyCols []string
	for _, k := range eff {
		keyCols = append(keyCols, k.Binding)
	}
	for _, e := range U {
		distinctTuples[restrictKey(e, keyCols)] = true
	}
	if allSortable && len(U) > 0 {
		sorted := append([]bq.Env{}, U...)
		// insertion sort with the reference comparator (small tables)
		for i := 1; i < len(sorted); i++ {
			for j := i; j > 0; j-- {
				cmp, _ := cmpRows(sorted[j-1], sorted[j], eff, sortable)
				if cmp <= 0 {
					break
				}
				sorted[j-1], sorted[j] = sorted[j], sorted[j-1]
			}
		}
		for i := 0; i < len(R); i++ {
			if restrictKey(R[i], keyCols) != restrictKey(sorted[i], keyCols) {
				// equal under the comparator but different keys is fine only if they compare equal
				cmp, _ := cmpRows(R[i], sorted[i], eff, sortable)
				if cmp != 0 {
					return fmt.Errorf("%q: row %d has key {%s} but the %d-th row of the sorted qualifying rows has key {%s}", text, i, restrictKey(R[i], keyCols), i, restrictKey(sorted[i], keyCols))
				}
			}
		}
		// non-trivial: >= 3 rows, >= 2 distinct key tuples, and sorting changes the order of U
		if len(U) >= 3 && len(distinctTuples) >= 2 {
			changed := false
			for i := range U {
				if restrictKey(U[i], keyCols) != restrictKey(sorted[i], keyCols) {
					changed = true
				}
			}
			if changed && (c.Limit < 0 || (c.Limit > 0 && c.Limit < len(U))) {
				ctx.Nontrivial()
			}
		}
	} else {
		ctx.Label("mixed-kind-or-null-key")
	}
	for _, k := range eff {
		for _, e := range U {
			ctx.Label("keykind:" + e[k.Binding].SubKind())
			break
		}
	}
	if c.Limit >= 0 {
		ctx.Label("limit")
	}
	if c.Grouped {
		ctx.Label("grouped")
	}
	if base.Having != nil {
		ctx.Label("having")
		if c.Limit > 0 && c.Limit < len(U) && len(keys) > 0 {
			ctx.Label("having+order+limit")
		}
	}
	_ = strings.Join
	return nil
}

func TestC12(t *testing.T) {
	pbt.Run(t, "C12", "TestC12", genC12, checkC12)
}
