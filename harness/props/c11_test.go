package props

// C11 — GROUP BY yields one row per group with correct count, distinct count and sum.

import (
	"fmt"
	"math"
	"sort"
	"strings"
	"testing"

	"verif/harness/bq"
	"verif/harness/gen"
	"verif/harness/model"
	"verif/harness/pbt"

	"pgregory.net/rapid"
)

type c11Agg struct {
	Op  string `json:"op"` // count countd sum
	Idx int    `json:"idx"`
}

type c11Case struct {
	Data     bq.Dataset  `json:"data"`
	From     []string    `json:"from"`
	Clauses  []bq.Clause `json:"clauses"`
	Keys     []int       `json:"keys"`      // indexes into the pattern's bindings
	KeyAlias []bool      `json:"key_alias"` // project the key with AS and group by the alias
	Aggs     []c11Agg    `json:"aggs"`
	Excluded []string    `json:"excluded,omitempty"`
}

// c11Universe has repeated values and mixed kinds under the same predicate.
func c11Data(t *rapid.T) (bq.Dataset, bq.Universe) {
	u := bq.DefaultUniverse()
	u.Nodes = u.Nodes[:4]
	u.PredIDs = u.PredIDs[:2]
	u.Anchors = u.Anchors[:3]
	// ints: small ones and two neighbours beyond 2^53 (distinct as integers, equal as float64);
	// floats: ordinary ones, two pairs that differ only after the 6th decimal; text/bool look-alikes of numbers
	ints := []model.LitSpec{{Kind: "int64", I: 1}, {Kind: "int64", I: 2}, {Kind: "int64", I: -5}, {Kind: "int64", I: 40}, {Kind: "int64", I: 9007199254740993}, {Kind: "int64", I: 9007199254740994}}
	floats := []model.LitSpec{{Kind: "float64", F: 0x3ff8000000000000}, {Kind: "float64", F: 0xc002000000000000}, {Kind: "float64", F: 0x4024000000000000},
		{Kind: "float64", F: 0x3ff000001ad7f29b}, {Kind: "float64", F: 0x3ff0000035afe535}, {Kind: "float64", F: math.Float64bits(1e-7)}, {Kind: "float64", F: math.Float64bits(2e-7)}, {Kind: "float64", F: 0x3ff0000000000000}}
	u.Lits = append(append(append([]model.LitSpec{}, ints...), floats...),
		model.LitSpec{Kind: "text", S: "x"}, model.LitSpec{Kind: "text", S: "y"}, model.LitSpec{Kind: "bool", B: true}, model.LitSpec{Kind: "text", S: "1"}, model.LitSpec{Kind: "text", S: "true"})
	d := bq.Dataset{}
	ng := 1 + gen.Uniform(t, 2, "ngraphs")
	for g := 0; g < ng; g++ {
		name := bq.GraphNames[g]
		n := 3 + gen.Uniform(t, 12, "ntriples")
		seen := map[string]bool{}
		d[name] = []model.TripleSpec{}
		for i := 0; i < n; i++ {
			tr := model.TripleSpec{S: gen.Pick(t, u.Nodes, "s"), P: u.GenPred(t, "p")}
			switch k := gen.Uniform(t, 10, "ok"); {
			case k < 3: // int column
				l := gen.Pick(t, ints, "oi")
				tr.O = model.ObjSpec{L: &l}
			case k < 5: // float column
				l := gen.Pick(t, floats, "of")
				tr.O = model.ObjSpec{L: &l}
			case k < 8:
				nn := gen.Pick(t, u.Nodes, "on")
				tr.O = model.ObjSpec{N: &nn}
			default:
				tr.O = u.GenObj(t, "oany")
			}
			// kind-homogeneous columns: ints under "p", floats under "q" most of the time
			if tr.O.L != nil && gen.Maybe(t, 70, "homog") {
				switch tr.O.L.Kind {
				case "int64":
					tr.P.ID = "p"
				case "float64":
					tr.P.ID = "q"
				}
			}
			if !seen[tr.Key()] {
				seen[tr.Key()] = true
				d[name] = append(d[name], tr)
			}
		}
	}
	return d, u
}

func genC11(t *rapid.T) c11Case {
	d, u := c11Data(t)
	var c c11Case
	c.Data = d
	c.From = genFrom(t, d)
	var visible []model.TripleSpec
	for _, cd := range bq.Candidates(d, c.From) {
		visible = append(visible, cd.Triple)
	}
	g := &bq.QGen{T: t, U: u, Data: visible}
	n := 1 + gen.Uniform(t, 2, "nclauses")
	for i := 0; i < n; i++ {
		var cl bq.Clause
		if gen.Maybe(t, 60, "simple") {
			// ?s "id"@[] ?o style clauses give groups with several members
			cl = bq.Clause{S: bq.SPos{Binding: fmt.Sprintf("?s%d", i)}, O: bq.OPos{Binding: fmt.Sprintf("?o%d", i)}}
			if i > 0 && gen.Maybe(t, 50, "join") {
				cl.S.Binding = "?s0"
			}
			switch gen.Uniform(t, 3, "pk") {
			case 0:
				cl.P.Binding = fmt.Sprintf("?p%d", i)
			case 1:
				p := model.PredSpec{ID: gen.Pick(t, u.PredIDs, "pid")}
				cl.P.Pred = &p
			default:
				cl.P.AnchorID = gen.Pick(t, u.PredIDs, "paid")
				cl.P.AnchorB = fmt.Sprintf("?t%d", i)
			}
		} else {
			cl = g.GenClauseMixed(fmt.Sprintf("c%d", i), bq.ClauseOpts{})
		}
		c.Clauses = append(c.Clauses, cl)
	}
	if gen.Maybe(t, 20, "optional-clause") {
		// an OPTIONAL clause on the first subject: its bindings are NULL in the solutions it does
		// not match, and those solutions still count
		p := model.PredSpec{ID: gen.Pick(t, u.PredIDs, "opid")}
		oc := bq.Clause{Optional: true, S: bq.SPos{Binding: "?s0"}, P: bq.PPos{Pred: &p}, O: bq.OPos{Binding: "?oo"}}
		if c.Clauses[0].S.Binding != "?s0" {
			if b := c.Clauses[0].S.Binding; b != "" {
				oc.S.Binding = b
			}
		}
		c.Clauses = append(c.Clauses, oc)
	}
	if cs, renamed := avoidObjIDReuse(c.Clauses); renamed {
		c.Clauses = cs
		c.Excluded = append(c.Excluded, "KF-C03-OBJ-ID-UNCHECKED")
	}
	if cs, changed := avoidBindinglessClause(c.Clauses); changed {
		c.Clauses = cs
		c.Excluded = append(c.Excluded, "KF-C03-BINDINGLESS-CLAUSE")
	}
	nb := len(bq.AllBindings(c.Clauses))
	if nb == 0 {
		nb = 1
	}
	nk := 1 + gen.Uniform(t, 2, "nkeys")
	for i := 0; i < nk; i++ {
		c.Keys = append(c.Keys, gen.Uniform(t, nb, "key"))
		c.KeyAlias = append(c.KeyAlias, gen.Maybe(t, 40, "keyalias"))
	}
	na := gen.Uniform(t, 4, "naggs")
	for i := 0; i < na; i++ {
		c.Aggs = append(c.Aggs, c11Agg{Op: gen.Pick(t, []string{"count", "countd", "sum", "sum"}, "aggop"), Idx: gen.Uniform(t, nb, "aggb")})
	}
	return c
}

func checkC11(ctx *pbt.Ctx, c c11Case) error {
	for _, id := range c.Excluded {
		ctx.Excluded(id)
	}
	all := bq.AllBindings(c.Clauses)
	if len(all) == 0 {
		ctx.Label("no-bindings")
		return nil
	}
	// base query: all bindings, no GROUP BY
	var base bq.Query
	base.From, base.Clauses = c.From, c.Clauses
	for _, b := range all {
		base.Proj = append(base.Proj, bq.Proj{Binding: b})
	}
	bout, err := runBQL(BQLReq{Graphs: datasetGraphs(c.Data), Runs: []RunSpec{{Text: base.String()}}})
	if err != nil {
		return err
	}
	if bout.Hung && !bout.Crashed {
		ctx.Label("no-result-within-bound-twice(C08)")
		return nil // termination is C08's statement; this property cannot judge a run without a result
	}
	if bout.Crashed || bout.Hung {
		ctx.Label("base-query-crashes(C03/C08)")
		return nil
	}
	bres := bout.Resp.Results[0]
	if bres.Stage != "ok" || bres.Panic != "" {
		ctx.Label("base-query-fails(C03)")
		return nil
	}
	B := rowEnvs(bres)
	kinds := bq.BindingKinds(B)
	// grouped query
	var q bq.Query
	q.From, q.Clauses = c.From, c.Clauses
	usedOut := map[string]bool{}
	shadow := false
	var keyCols, keyIn []string
	for i, ki := range c.Keys {
		b := all[ki%len(all)]
		p := bq.Proj{Binding: b}
		if c.KeyAlias[i] {
			p.Alias = fmt.Sprintf("?k%d", i)
			// sometimes the alias is the name of another pattern binding (one that an aggregate
			// reads): the output column shadows it, the aggregate still reads the binding
			if len(c.Aggs) > 0 && len(all) > 1 && (c.Keys[i]+len(c.Aggs))%3 == 0 {
				if other := all[c.Aggs[0].Idx%len(all)]; other != b && !usedOut[other] {
					p.Alias = other
					shadow = true
				}
			}
		}
		if usedOut[p.OutName()] {
			continue
		}
		// the same input binding as two keys is legal only through distinct aliases
		usedOut[p.OutName()] = true
		q.Proj = append(q.Proj, p)
		q.GroupBy = append(q.GroupBy, p.OutName())
		keyCols = append(keyCols, p.OutName())
		keyIn = append(keyIn, b)
	}
	type aggOut struct {
		op, in, out string
	}
	var aggs []aggOut
	isNumeric := func(b string) bool {
		ks := kinds[b]
		return len(B) > 0 && len(ks) == 1 && (ks["L:int64"] || ks["L:float64"])
	}
	var numericBindings []string
	for _, b := range all {
		if isNumeric(b) {
			numericBindings = append(numericBindings, b)
		}
	}
	for i, a := range c.Aggs {
		b := all[a.Idx%len(all)]
		op := a.Op
		if op == "sum" && !isNumeric(b) {
			// sum is only generated where the base rows show it is type-correct
			if len(numericBindings) > 0 {
				b = numericBindings[a.Idx%len(numericBindings)]
			} else {
				op = "count"
			}
		}
		out := fmt.Sprintf("?n%d", i)
		q.Proj = append(q.Proj, bq.Proj{Binding: b, Alias: out, Op: op})
		aggs = append(aggs, aggOut{op, b, out})
	}
	text := q.String()
	out, err := runBQL(BQLReq{Graphs: datasetGraphs(c.Data), Runs: []RunSpec{{Text: text}}})
	if err != nil {
		return err
	}
	if out.Hung && !out.Crashed {
		ctx.Label("no-result-within-bound-twice(C08)")
		return nil // termination is C08's statement; this property cannot judge a run without a result
	}
	if out.Crashed || out.Hung {
		return fmt.Errorf("executing %q crashed=%v hung=%v: %s", text, out.Crashed, out.Hung, lastLines(out.Stderr, 10))
	}
	res := out.Resp.Results[0]
	if res.Stage == "parse" {
		ctx.Label("rejected-by-parser")
		return nil
	}
	if res.Panic != "" {
		return fmt.Errorf("%q panicked: %s", text, res.Panic)
	}
	if res.Stage != "ok" {
		return fmt.Errorf("%q fails (%s: %s); the pattern has %d solutions", text, res.Stage, res.Err, len(B))
	}
	// reference grouping of B
	type group struct {
		key  []bq.Val
		rows []bq.Env
	}
	groups := map[string]*group{}
	var order []string
	for _, e := range B {
		var kp []string
		var kv []bq.Val
		for _, b := range keyIn {
			kp = append(kp, e[b].Key())
			kv = append(kv, e[b])
		}
		k := strings.Join(kp, "\x00")
		if groups[k] == nil {
			groups[k] = &group{key: kv}
			order = append(order, k)
		}
		groups[k].rows = append(groups[k].rows, e)
	}
	if len(B) == 0 {
		if len(res.Rows) != 0 {
			return fmt.Errorf("%q returns %d rows although the pattern has no solution", text, len(res.Rows))
		}
		ctx.Label("no-solutions")
		return nil
	}
	got := rowEnvs(res)
	if len(got) != len(groups) {
		return fmt.Errorf("%q returns %d rows for %d distinct key combinations among %d solutions\n rows: %v\n data: %s", text, len(got), len(groups), len(B), rowKeys(res), describeData(c.Data))
	}
	gotByKey := map[string]bq.Env{}
	for _, e := range got {
		var kp []string
		for _, kc := range keyCols {
			kp = append(kp, e[kc].Key())
		}
		k := strings.Join(kp, "\x00")
		if _, dup := gotByKey[k]; dup {
			return fmt.Errorf("%q returns two rows for the key combination {%s}\n rows: %v", text, strings.ReplaceAll(k, "\x00", ", "), rowKeys(res))
		}
		gotByKey[k] = e
	}
	multi, big := false, false
	mixed := false
	for _, b := range keyIn {
		if len(kinds[b]) > 1 {
			mixed = true
		}
	}
	for _, k := range order {
		gr := groups[k]
		e, ok := gotByKey[k]
		if !ok {
			return fmt.Errorf("%q has no row for the key combination {%s}\n rows: %v", text, strings.ReplaceAll(k, "\x00", ", "), rowKeys(res))
		}
		if len(gr.rows) >= 2 {
			big = true
		}
		for _, a := range aggs {
			v := e[a.out]
			switch a.op {
			case "count":
				if v.Kind != 'L' || v.L.Kind != "int64" || v.L.I != int64(len(gr.rows)) {
					return fmt.Errorf("%q: count(%s) for key {%s} is %s, the group has %d solutions", text, a.in, strings.ReplaceAll(k, "\x00", ", "), v.Key(), len(gr.rows))
				}
			case "countd":
				dist := map[string]bool{}
				for _, r := range gr.rows {
					dist[r[a.in].Key()] = true
				}
				// whether NULL (an unmatched OPTIONAL clause) is a "value" is not stated: both readings pass
				alt := len(dist)
				if dist["NULL"] {
					alt--
					ctx.Label("countd-over-null")
				}
				if v.Kind != 'L' || v.L.Kind != "int64" || (v.L.I != int64(len(dist)) && v.L.I != int64(alt)) {
					return fmt.Errorf("%q: count(distinct %s) for key {%s} is %s, the group has %d distinct values", text, a.in, strings.ReplaceAll(k, "\x00", ", "), v.Key(), len(dist))
				}
			case "sum":
				if gr.rows[0][a.in].L.Kind == "int64" {
					var s int64
					for _, r := range gr.rows {
						s += r[a.in].L.I
					}
					if v.Kind != 'L' || v.L.Kind != "int64" || v.L.I != s {
						return fmt.Errorf("%q: sum(%s) for key {%s} is %s, want %d", text, a.in, strings.ReplaceAll(k, "\x00", ", "), v.Key(), s)
					}
				} else {
					var s float64
					for _, r := range gr.rows {
						s += math.Float64frombits(r[a.in].L.F)
					}
					gotf := math.NaN()
					if v.Kind == 'L' && v.L.Kind == "float64" {
						gotf = math.Float64frombits(v.L.F)
					}
					if math.IsNaN(gotf) || math.Abs(gotf-s) > 1e-9*math.Max(1, math.Abs(s)) {
						return fmt.Errorf("%q: sum(%s) for key {%s} is %s, want %v", text, a.in, strings.ReplaceAll(k, "\x00", ", "), v.Key(), s)
					}
				}
			}
		}
	}
	multi = len(groups) >= 2
	if multi && big {
		ctx.Nontrivial()
	}
	if mixed {
		ctx.Label("mixed-kind-key")
	}
	if shadow {
		ctx.Label("key-alias-shadows-a-binding")
	}
	for _, a := range aggs {
		ctx.Label("agg:" + a.op)
	}
	for _, al := range c.KeyAlias {
		if al {
			ctx.Label("key-alias")
			break
		}
	}
	sort.Strings(order)
	return nil
}

func TestC11(t *testing.T) {
	pbt.Run(t, "C11", "TestC11", genC11, checkC11)
}
