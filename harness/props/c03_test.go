package props

// C03 — SELECT returns exactly the solutions of its graph pattern.

import (
	"fmt"
	"sort"
	"strings"
	"testing"

	"verif/harness/bq"
	"verif/harness/gen"
	"verif/harness/model"
	"verif/harness/pbt"

	"pgregory.net/rapid"
)

type c03Case struct {
	Data     bq.Dataset `json:"data"`
	Q        bq.Query   `json:"q"`
	Excluded []string   `json:"excluded,omitempty"` // findings whose class was avoided by construction
}

// avoidObjIDReuse renames an object ID alias that repeats another binding of the
// same clause while KF-C03-OBJ-ID-UNCHECKED is open (the implementation does not
// compare it; pinned by the repository's own `?gc ID ?gc` test query).
func avoidObjIDReuse(cs []bq.Clause) (out []bq.Clause, renamed bool) {
	if !pbt.FindingOpen("KF-C03-OBJ-ID-UNCHECKED") {
		return cs, false
	}
	out = append([]bq.Clause{}, cs...)
	for i := range out {
		c := out[i]
		if c.O.ID == "" {
			continue
		}
		n := 0
		for _, b := range c.Bindings() {
			if b == c.O.ID {
				n++
			}
		}
		if n > 1 {
			out[i].O.ID = fmt.Sprintf("?oid%d", i)
			renamed = true
		}
	}
	return out, renamed
}

// avoidBindinglessClause gives a clause that binds nothing but is not fully
// specified (constants plus an "id"@[lo,hi] form) a subject alias while
// KF-C03-BINDINGLESS-CLAUSE is open.
func avoidBindinglessClause(cs []bq.Clause) (out []bq.Clause, changed bool) {
	if !pbt.FindingOpen("KF-C03-BINDINGLESS-CLAUSE") {
		return cs, false
	}
	out = append([]bq.Clause{}, cs...)
	for i := range out {
		if len(out[i].Bindings()) == 0 && out[i].Specificity() < 3 {
			out[i].S.As = fmt.Sprintf("?sas%d", i)
			changed = true
		}
	}
	return out, changed
}

func genFrom(t *rapid.T, d bq.Dataset) []string {
	names := d.Names()
	if len(names) == 1 || rapid.IntRange(0, 2).Draw(t, "onefrom") == 0 {
		return []string{rapid.SampledFrom(names).Draw(t, "from")}
	}
	// a non-empty subset in a drawn order
	perm := rapid.Permutation(names).Draw(t, "fromperm")
	n := rapid.IntRange(1, len(perm)).Draw(t, "nfrom")
	return perm[:n]
}

func genC03(t *rapid.T) c03Case {
	u := bq.DefaultUniverse()
	d := u.GenDataset(t, 8)
	var q bq.Query
	q.From = genFrom(t, d)
	var visible []model.TripleSpec
	for _, c := range bq.Candidates(d, q.From) {
		visible = append(visible, c.Triple)
	}
	g := &bq.QGen{T: t, U: u, Data: visible}
	n := 1 + gen.Uniform(t, 4, "nclauses")
	for i := 0; i < n; i++ {
		q.Clauses = append(q.Clauses, g.GenClauseMixed(fmt.Sprintf("c%d", i), bq.ClauseOpts{}))
	}
	aliased := false
	if cs, ch := g.AliasBounds(q.Clauses, 35, true); ch {
		q.Clauses, aliased = cs, true
	}
	var excl []string
	if cs, renamed := avoidObjIDReuse(q.Clauses); renamed {
		q.Clauses = cs
		excl = append(excl, "KF-C03-OBJ-ID-UNCHECKED")
	}
	if cs, changed := avoidBindinglessClause(q.Clauses); changed {
		q.Clauses = cs
		excl = append(excl, "KF-C03-BINDINGLESS-CLAUSE")
	}
	q.Proj = g.GenProjection(bq.AllBindings(q.Clauses))
	if gen.Maybe(t, 20, "hasglobal") || (aliased && gen.Maybe(t, 40, "hasglobal-alias")) {
		q.Global = g.GenGlobal()
	}
	return c03Case{Data: d, Q: q, Excluded: excl}
}

// c03Labels classifies the query shape.
func c03Labels(ctx *pbt.Ctx, q bq.Query) {
	ctx.Labelf("clauses:%d", len(q.Clauses))
	if len(q.From) > 1 {
		ctx.Label("multi-graph")
	}
	if q.Global != nil {
		ctx.Label("global-bound")
	}
	seen := map[string]string{}
	for _, c := range q.Clauses {
		note := func(b, pos string) {
			if b == "" {
				return
			}
			if old, ok := seen[b]; ok && old != pos {
				ctx.Label("shared:" + old + "-" + pos)
			} else if ok {
				ctx.Label("shared:" + pos)
			}
			seen[b] = pos
		}
		note(c.S.Binding, "S")
		note(c.P.Binding, "P")
		note(c.O.Binding, "O")
		note(c.P.AnchorB, "T")
		note(c.O.AnchorB, "T")
		for _, x := range []string{c.S.As, c.S.Type, c.S.ID, c.P.As, c.P.IDAlias, c.P.At, c.O.As, c.O.Type, c.O.ID, c.O.At} {
			if x != "" {
				note(x, "X")
			}
		}
		if c.P.Bound != nil || c.O.Bound != nil {
			ctx.Label("bound-form")
		}
		if bq.HasAliasBound([]bq.Clause{c}) {
			ctx.Label("bound-by-binding")
		}
		if c.P.AnchorID != "" || c.O.AnchorID != "" {
			ctx.Label("anchor-binding")
		}
		if c.P.Pred != nil && c.P.Pred.Anchor != nil {
			ctx.Label("temporal-constant")
		}
		ctx.Labelf("specificity:%d", c.Specificity())
	}
}

func hasBoundForm(cs []bq.Clause) bool {
	for _, c := range cs {
		if c.P.Bound != nil || c.O.Bound != nil {
			return true
		}
	}
	return false
}

// multiplicityOpen: a triple stored in more than one listed graph matches some clause.
func multiplicityOpen(q bq.Query, d bq.Dataset) bool {
	cnt := map[string]int{}
	for _, g := range q.From {
		for _, t := range d[g] {
			cnt[t.Key()]++
		}
	}
	for _, g := range q.From {
		for _, t := range d[g] {
			if cnt[t.Key()] < 2 {
				continue
			}
			for _, c := range q.Clauses {
				if _, ok := bq.Match(c, t); ok {
					return true
				}
			}
		}
	}
	return false
}

func envKeys(envs []bq.Env, cols []string) []string {
	sc := bq.SortedCols(cols)
	out := make([]string, len(envs))
	for i, e := range envs {
		out[i] = bq.RowKey(e, sc)
	}
	return out
}

func setOf(keys []string) []string {
	m := map[string]bool{}
	for _, k := range keys {
		m[k] = true
	}
	out := make([]string, 0, len(m))
	for k := range m {
		out = append(out, k)
	}
	sort.Strings(out)
	return out
}

func outCols(q bq.Query) []string {
	var cols []string
	for _, p := range q.Proj {
		cols = append(cols, p.OutName())
	}
	return cols
}

func checkC03(ctx *pbt.Ctx, c c03Case) error {
	text := c.Q.String()
	c03Labels(ctx, c.Q)
	for _, id := range c.Excluded {
		ctx.Excluded(id)
	}
	out, err := runBQL(BQLReq{Graphs: datasetGraphs(c.Data), Runs: []RunSpec{{Text: text}}})
	if err != nil {
		return err
	}
	if out.Hung && !out.Crashed {
		ctx.Label("no-result-within-bound-twice(C08)")
		return nil // termination is C08's statement; this property cannot judge a run without a result
	}
	if out.Crashed || out.Hung {
		return fmt.Errorf("executing %q crashed=%v hung=%v: %s", text, out.Crashed, out.Hung, lastLines(out.Stderr, 10))
	}
	res := out.Resp.Results[0]
	if res.Panic != "" {
		return fmt.Errorf("executing %q panicked: %s", text, res.Panic)
	}
	if res.Stage == "parse" {
		if err := syntaxRejection(text, res.Err, len(c.Q.Proj)); err != nil {
			return err
		}
		ctx.Label("rejected-by-parser")
		ctx.Label("rejected:" + rejectionClass(res.Err))
		return nil
	}
	cands := bq.Candidates(c.Data, c.Q.From)
	sols := bq.Solve(c.Q.Clauses, cands, c.Q.Global)
	want := envKeys(bq.Project(sols, c.Q.Proj), outCols(c.Q))
	if res.Stage != "ok" {
		return fmt.Errorf("%q fails at stage %s with %q; the reference has %d solutions %v", text, res.Stage, res.Err, len(want), firstN(want, 3))
	}
	if res.NilTable {
		return fmt.Errorf("%q returned (nil, nil)", text)
	}
	if len(res.Rows) > 0 && strings.Join(bq.SortedCols(res.Cols), ",") != strings.Join(bq.SortedCols(outCols(c.Q)), ",") {
		return fmt.Errorf("%q returns columns %v, selected %v", text, res.Cols, outCols(c.Q))
	}
	got := rowKeys(res)
	open := hasBoundForm(c.Q.Clauses) || multiplicityOpen(c.Q, c.Data)
	same := false
	if open {
		ctx.Label("multiplicity-open")
		same = strings.Join(setOf(want), "\n") == strings.Join(setOf(got), "\n")
	} else {
		same = sameMultiset(want, got)
	}
	if !same {
		return fmt.Errorf("%q over %s:\n  %s", text, describeData(c.Data), diffMultiset(want, got))
	}
	// non-trivial: >= 1 solution and some stored triple matches a clause but is in no solution
	if len(sols) > 0 {
		decoy := false
	outer:
		for _, cl := range c.Q.Clauses {
			for _, cand := range cands {
				mi, ok := bq.Match(cl, cand.Triple)
				if !ok || !bq.GlobalAllows(c.Q.Global, cand.Triple) {
					continue
				}
				used := false
				for _, s := range sols {
					agree := true
					for k, v := range mi.Env {
						if s[k].Key() != v.Key() {
							agree = false
							break
						}
					}
					if agree {
						used = true
						break
					}
				}
				if !used {
					decoy = true
					break outer
				}
			}
		}
		if decoy {
			ctx.Nontrivial()
		}
		ctx.Label("has-solutions")
	}
	return nil
}

func describeData(d bq.Dataset) string {
	var sb strings.Builder
	for _, g := range d.Names() {
		sb.WriteString(g + "{")
		for i, t := range d[g] {
			if i > 0 {
				sb.WriteString(" . ")
			}
			sb.WriteString(bq.FmtTriple(t))
		}
		sb.WriteString("} ")
	}
	return sb.String()
}

func TestC03(t *testing.T) {
	pbt.Run(t, "C03", "TestC03", genC03, checkC03)
}

// ---- exhaustive one- and two-clause shapes over a small vocabulary ----

func c03ShapeVocabulary() (datasets []bq.Dataset, subj []func(i int) bq.SPos, pred []func(i int) bq.PPos, obj []func(i int) bq.OPos, extr []func(c *bq.Clause, i int)) {
	n1, n2, n3 := model.NodeSpec{Type: "/u", ID: "a"}, model.NodeSpec{Type: "/u", ID: "b"}, model.NodeSpec{Type: "/t", ID: "a"}
	t1 := model.TimeSpec{Sec: bq.BaseSec}
	t1z := model.TimeSpec{Sec: bq.BaseSec, Off: 3600}
	t2 := model.TimeSpec{Sec: bq.BaseSec + 86400, Nsec: 500000000}
	pI, pT1, pT2 := model.PredSpec{ID: "p"}, model.PredSpec{ID: "p", Anchor: &t1}, model.PredSpec{ID: "p", Anchor: &t2}
	qI, qT1 := model.PredSpec{ID: "q"}, model.PredSpec{ID: "q", Anchor: &t1z}
	lit := model.LitSpec{Kind: "int64", I: 1}
	tr := func(s model.NodeSpec, p model.PredSpec, o model.ObjSpec) model.TripleSpec {
		return model.TripleSpec{S: s, P: p, O: o}
	}
	on := func(n model.NodeSpec) model.ObjSpec { return model.ObjSpec{N: &n} }
	op := func(p model.PredSpec) model.ObjSpec { return model.ObjSpec{P: &p} }
	ol := model.ObjSpec{L: &lit}
	datasets = []bq.Dataset{
		{"?g0": {tr(n1, pI, on(n2)), tr(n1, pT1, on(n2)), tr(n2, pI, on(n1)), tr(n1, qI, ol), tr(n2, pT2, op(qT1)), tr(n3, qT1, on(n1))}},
		{"?g0": {tr(n1, pT1, on(n1)), tr(n1, pT2, ol), tr(n2, qT1, op(pT1)), tr(n2, pI, op(qI)), tr(n1, pI, on(n3))}},
		{"?g0": {tr(n1, pI, on(n2)), tr(n2, pT1, ol)}, "?g1": {tr(n1, pI, on(n2)), tr(n3, pT1, on(n2)), tr(n2, qT1, op(qT1))}},
	}
	subj = []func(i int) bq.SPos{
		func(i int) bq.SPos { n := n1; return bq.SPos{Node: &n} },
		func(i int) bq.SPos { return bq.SPos{Binding: fmt.Sprintf("?s%d", i)} },
		func(i int) bq.SPos { return bq.SPos{Binding: "?x"} },
	}
	lo := model.TimeSpec{Sec: bq.BaseSec}
	pred = []func(i int) bq.PPos{
		func(i int) bq.PPos { p := pI; return bq.PPos{Pred: &p} },
		func(i int) bq.PPos { p := model.PredSpec{ID: "p", Anchor: &t1z}; return bq.PPos{Pred: &p} },
		func(i int) bq.PPos { return bq.PPos{AnchorID: "p", AnchorB: fmt.Sprintf("?t%d", i)} },
		func(i int) bq.PPos { l := lo; return bq.PPos{Bound: &bq.Bound{ID: "p", Lo: &l}} },
		func(i int) bq.PPos { return bq.PPos{Binding: fmt.Sprintf("?p%d", i)} },
		func(i int) bq.PPos { return bq.PPos{Binding: "?x"} },
	}
	obj = []func(i int) bq.OPos{
		func(i int) bq.OPos { n := n2; return bq.OPos{Node: &n} },
		func(i int) bq.OPos { l := lit; return bq.OPos{Lit: &l} },
		func(i int) bq.OPos { return bq.OPos{Binding: fmt.Sprintf("?o%d", i)} },
		func(i int) bq.OPos { return bq.OPos{Binding: "?x"} },
		func(i int) bq.OPos { return bq.OPos{AnchorID: "q", AnchorB: fmt.Sprintf("?u%d", i)} },
	}
	extr = []func(c *bq.Clause, i int){
		func(c *bq.Clause, i int) {},
		func(c *bq.Clause, i int) { c.S.ID = fmt.Sprintf("?si%d", i) },
		func(c *bq.Clause, i int) {
			if c.O.Binding != "" || c.O.Node != nil {
				c.O.Type = fmt.Sprintf("?ot%d", i)
			} else {
				c.S.Type = fmt.Sprintf("?st%d", i)
			}
		},
		func(c *bq.Clause, i int) {
			if c.P.Bound == nil {
				c.P.At = fmt.Sprintf("?pa%d", i)
			} else {
				c.P.IDAlias = fmt.Sprintf("?pi%d", i)
			}
		},
	}
	return
}

func TestC03Shapes(t *testing.T) {
	if pbt.ReplayPath() != "" {
		pbt.Run(t, "C03", "TestC03Shapes", func(*rapid.T) c03Case { return c03Case{} }, checkC03)
		return
	}
	datasets, subj, pred, obj, extr := c03ShapeVocabulary()
	shard, nsh := pbt.Shard()
	sample := uint64(16)
	if pbt.Thorough() {
		sample = 1
	}
	seed := pbt.Seed()
	mk := func(code, i int) bq.Clause {
		var c bq.Clause
		c.S = subj[code%len(subj)](i)
		code /= len(subj)
		c.P = pred[code%len(pred)](i)
		code /= len(pred)
		c.O = obj[code%len(obj)](i)
		code /= len(obj)
		extr[code%len(extr)](&c, i)
		return c
	}
	nshapes := len(subj) * len(pred) * len(obj) * len(extr)
	idx := uint64(0)
	run := func(cs []bq.Clause) {
		for di, d := range datasets {
			idx++
			if int(idx%uint64(nsh)) != shard {
				continue
			}
			if (idx*2654435761+seed*97)>>4%sample != 0 {
				continue
			}
			var q bq.Query
			q.Clauses = cs
			var excl []string
			if c2, renamed := avoidObjIDReuse(q.Clauses); renamed {
				q.Clauses = c2
				excl = append(excl, "KF-C03-OBJ-ID-UNCHECKED")
			}
			if c2, changed := avoidBindinglessClause(q.Clauses); changed {
				q.Clauses = c2
				excl = append(excl, "KF-C03-BINDINGLESS-CLAUSE")
			}
			q.From = d.Names()
			all := bq.AllBindings(q.Clauses)
			if len(all) == 0 {
				continue
			}
			for _, b := range all {
				q.Proj = append(q.Proj, bq.Proj{Binding: b})
			}
			_ = di
			pbt.Eval(t, "C03", "TestC03Shapes", c03Case{Data: d, Q: q, Excluded: excl}, checkC03)
		}
	}
	for a := 0; a < nshapes; a++ {
		run([]bq.Clause{mk(a, 0)})
	}
	for a := 0; a < nshapes; a++ {
		for b := 0; b < nshapes; b++ {
			run([]bq.Clause{mk(a, 0), mk(b, 1)})
		}
	}
	if pbt.Thorough() {
		pbt.SetExhaustive("TestC03Shapes")
	}
	pbt.SetExtra("TestC03Shapes", "one_clause_shapes", nshapes)
	pbt.SetExtra("TestC03Shapes", "sample_denominator", int(sample))
}

// rejectionClass abbreviates a parser error to its constant part.
func rejectionClass(e string) string {
	e = strings.TrimPrefix(e, "Parser.consume: ")
	for _, cut := range []string{" got ", " in ", ";", "\"", "?", "/"} {
		if i := strings.Index(e, cut); i > 0 {
			e = e[:i]
		}
	}
	if len(e) > 60 {
		e = e[:60]
	}
	return e
}

// syntaxRejection: the printers of the generated fragment emit documented forms only, so a
// statement with at least one projection that the parser rejects for its SYNTAX ("Failed to
// consume ...") returns no rows for a pattern that may have solutions. Rejections by the
// semantic hooks (unknown bindings, contradictory bounds, ...) are not judged here.
func syntaxRejection(text, perr string, nproj int) error {
	if nproj == 0 || !strings.Contains(perr, "Failed to consume") {
		return nil
	}
	return fmt.Errorf("%q is a statement of the generated fragment (documented forms only) but the parser rejects its syntax, so none of its solutions is returned: %s", text, perr)
}
