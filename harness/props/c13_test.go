package props

// C13 — HAVING keeps exactly the rows satisfying its boolean expression.

import (
	"fmt"
	"math"
	"os"
	"testing"

	"verif/harness/bq"
	"verif/harness/gen"
	"verif/harness/model"
	"verif/harness/pbt"

	"pgregory.net/rapid"
)

type c13Case struct {
	Data    bq.Dataset  `json:"data"`
	From    []string    `json:"from"`
	Clauses []bq.Clause `json:"clauses"`
	Grouped bool        `json:"grouped,omitempty"`
	// Shadow (grouped only): the grouping key is projected AS the name of another pattern
	// binding, which is itself aggregated: `select ?b as ?a, count(?a) ... group by ?a`
	Shadow   bool     `json:"shadow,omitempty"`
	Choices  []int    `json:"choices"` // drives the construction of the expression from the rows without HAVING
	Excluded []string `json:"excluded,omitempty"`
	// ConstFirst: bit i set = the i-th constant comparison is written `constant op binding`
	// (the grammar admits it; the expression builder may reject it, it must not misread it)
	ConstFirst uint `json:"const_first,omitempty"`
}

func genC13(t *rapid.T) c13Case {
	d, u := c12Data(t)
	var c c13Case
	c.Data = d
	c.From = genFrom(t, d)
	var visible []model.TripleSpec
	for _, cd := range bq.Candidates(d, c.From) {
		visible = append(visible, cd.Triple)
	}
	g := &bq.QGen{T: t, U: u, Data: visible}
	n := 1 + gen.Uniform(t, 2, "nclauses")
	for i := 0; i < n; i++ {
		var cl bq.Clause
		switch gen.Uniform(t, 10, "shape") {
		case 0, 1, 2, 3:
			cl = bq.Clause{S: bq.SPos{Binding: fmt.Sprintf("?s%d", i), ID: fmt.Sprintf("?sid%d", i)}, P: bq.PPos{Binding: fmt.Sprintf("?p%d", i)}, O: bq.OPos{Binding: fmt.Sprintf("?o%d", i)}}
			if gen.Maybe(t, 40, "stype") {
				cl.S.Type = fmt.Sprintf("?sty%d", i)
			}
			if gen.Maybe(t, 30, "pid") {
				cl.P.IDAlias = fmt.Sprintf("?pid%d", i)
			}
		case 4, 5, 6:
			cl = bq.Clause{S: bq.SPos{Binding: fmt.Sprintf("?s%d", i)}, P: bq.PPos{AnchorID: gen.Pick(t, u.PredIDs, "aid"), AnchorB: fmt.Sprintf("?t%d", i)}, O: bq.OPos{Binding: fmt.Sprintf("?o%d", i)}}
			if i > 0 && gen.Maybe(t, 50, "join") {
				cl.S.Binding = "?s0"
			}
		default:
			cl = g.GenClauseMixed(fmt.Sprintf("c%d", i), bq.ClauseOpts{})
		}
		c.Clauses = append(c.Clauses, cl)
	}
	if cs, renamed := avoidObjIDReuse(c.Clauses); renamed {
		c.Clauses = cs
		c.Excluded = append(c.Excluded, "KF-C03-OBJ-ID-UNCHECKED")
	}
	if cs, changed := avoidBindinglessClause(c.Clauses); changed {
		c.Clauses = cs
		c.Excluded = append(c.Excluded, "KF-C03-BINDINGLESS-CLAUSE")
	}
	c.Grouped = gen.Maybe(t, 20, "grouped")
	c.Shadow = c.Grouped && gen.Maybe(t, 35, "shadow")
	for i := 0; i < 40; i++ {
		c.Choices = append(c.Choices, gen.Uniform(t, 1000, "choice"))
	}
	if gen.Maybe(t, 12, "constfirst") {
		c.ConstFirst = 1 << uint(gen.Uniform(t, 4, "constfirstbit"))
	}
	return c
}

type chooser struct {
	c          []int
	i          int
	constFirst uint
	nconst     uint
}

func (ch *chooser) n(k int) int {
	if k <= 0 {
		return 0
	}
	v := 0
	if ch.i < len(ch.c) {
		v = ch.c[ch.i]
	}
	ch.i++
	return v % k
}

func (c c13Case) base() bq.Query {
	var q bq.Query
	q.From, q.Clauses = c.From, c.Clauses
	all := bq.AllBindings(c.Clauses)
	if c.Grouped && c.Shadow && len(all) > 1 {
		q.Proj = append(q.Proj, bq.Proj{Binding: all[1], Alias: all[0]})
		q.GroupBy = []string{all[0]}
		q.Proj = append(q.Proj, bq.Proj{Binding: all[0], Alias: "?cnt", Op: "count"})
		q.Proj = append(q.Proj, bq.Proj{Binding: all[len(all)-1], Alias: "?dst", Op: "countd"})
		return q
	}
	if c.Grouped && len(all) > 0 {
		q.Proj = append(q.Proj, bq.Proj{Binding: all[0]})
		q.GroupBy = []string{all[0]}
		q.Proj = append(q.Proj, bq.Proj{Binding: all[len(all)-1], Alias: "?cnt", Op: "count"})
		if len(all) > 1 {
			q.Proj = append(q.Proj, bq.Proj{Binding: all[1], Alias: "?dst", Op: "countd"})
		}
		return q
	}
	for _, b := range all {
		q.Proj = append(q.Proj, bq.Proj{Binding: b})
	}
	return q
}

// c13Const picks a constant for comparing column col: usually of the column's
// kind and close to its values, sometimes of another kind.
func c13Const(ch *chooser, V []bq.Env, col string, e *bq.Expr) {
	var vals []bq.Val
	for _, r := range V {
		if r[col].Kind != 0 {
			vals = append(vals, r[col])
		}
	}
	other := ch.n(10) == 0 || len(vals) == 0
	if other {
		switch ch.n(5) {
		case 0:
			e.RLit = &model.LitSpec{Kind: "int64", I: 3}
		case 1:
			e.RLit = &model.LitSpec{Kind: "text", S: "a"}
		case 2:
			e.RNode = &model.NodeSpec{Type: "/u", ID: "a"}
		case 3:
			e.RTime = &model.TimeSpec{Sec: bq.BaseSec}
		default:
			e.RPred = &model.PredSpec{ID: "p"}
		}
		return
	}
	v := vals[ch.n(len(vals))]
	switch v.Kind {
	case 'N':
		n := *v.N
		e.RNode = &n
	case 'P':
		p := *v.P
		if p.Anchor != nil && ch.n(3) == 0 {
			a := *p.Anchor
			a.Off = []int{0, 3600, -8 * 3600}[ch.n(3)] // same instant, other zone
			p.Anchor = &a
		}
		e.RPred = &p
	case 'T':
		tv := *v.T
		switch ch.n(4) {
		case 0:
			tv.Sec--
		case 1:
			tv.Nsec = (tv.Nsec + 1) % 1000000000
		case 2:
			tv.Off = []int{0, 3600, -8 * 3600}[ch.n(3)]
		}
		e.RTime = &tv
	case 'S':
		s := *v.S
		switch ch.n(4) {
		case 0:
			s += " x"
		case 1:
			s += "!"
		case 2:
			if len(s) > 1 {
				s = s[:len(s)-1]
			}
		}
		e.RLit = &model.LitSpec{Kind: "text", S: s}
	case 'L':
		l := *v.L
		switch l.Kind {
		case "int64":
			l.I += int64(ch.n(5)) - 2
		case "float64":
			f := math.Float64frombits(l.F)
			switch ch.n(4) {
			case 0:
				f += 0.0000001
			case 1:
				f -= 1
			case 2:
				f *= 10
			}
			l.F = math.Float64bits(f)
		case "text":
			switch ch.n(4) {
			case 0:
				l.S += " x"
			case 1:
				l.S += "!"
			case 2:
				if len(l.S) > 1 {
					l.S = l.S[:len(l.S)-1]
				}
			}
		}
		e.RLit = &l
	}
}

func c13Cmp(ch *chooser, V []bq.Env, cols []string, kinds map[string]map[string]bool) *bq.Expr {
	col := cols[ch.n(len(cols))]
	e := &bq.Expr{Op: "cmp", Left: col}
	// binding-binding only between columns of the same single sub-kind
	if ch.n(5) == 0 {
		var same []string
		for _, o := range cols {
			if len(kinds[o]) == 1 && len(kinds[col]) == 1 {
				for k := range kinds[o] {
					if kinds[col][k] && k != "NULL" {
						same = append(same, o)
					}
				}
			}
		}
		if len(same) > 0 {
			e.RB = same[ch.n(len(same))]
		}
	}
	if e.RB == "" {
		c13Const(ch, V, col, e)
		e.Swap = ch.constFirst&(1<<ch.nconst) != 0
		ch.nconst++
	}
	ops := []string{"=", "<", ">"}
	// only "=" is defined for node / predicate constants and for bool / blob literals
	onlyEq := e.RNode != nil || e.RPred != nil || (e.RLit != nil && (e.RLit.Kind == "bool" || e.RLit.Kind == "blob"))
	if e.RB != "" {
		for k := range kinds[col] {
			if k == "N" || k == "P" || k == "L:bool" || k == "L:blob" {
				onlyEq = true
			}
		}
	}
	if onlyEq {
		e.Cmp = "="
	} else {
		e.Cmp = ops[ch.n(3)]
	}
	return e
}

func c13Expr(ch *chooser, V []bq.Env, cols []string, kinds map[string]map[string]bool, depth int) *bq.Expr {
	leaf := func() *bq.Expr {
		e := c13Cmp(ch, V, cols, kinds)
		if ch.n(4) == 0 {
			return &bq.Expr{Op: "not", A: e}
		}
		return e
	}
	if depth <= 0 || ch.n(3) == 0 {
		return leaf()
	}
	op := []string{"and", "or"}[ch.n(2)]
	left := c13Expr(ch, V, cols, kinds, depth-1)
	right := c13Expr(ch, V, cols, kinds, depth-1)
	// the right operand is parenthesised unless it is a comparison, a negated
	// comparison, or a chain of the SAME operator (right nesting is then harmless)
	if right.Op == "and" || right.Op == "or" {
		if right.Op != op || ch.n(2) == 0 {
			right = &bq.Expr{Op: "par", A: right}
		}
	}
	return &bq.Expr{Op: op, A: left, B: right}
}

// refEval evaluates the expression on a row. mismatch reports that a
// value-vs-constant comparison of different kinds was met; exempt that a
// binding-binding comparison met values of different kinds (statement silent).
func refEval(e *bq.Expr, r bq.Env) (val bool, mismatch bool, exempt bool) {
	switch e.Op {
	case "par":
		return refEval(e.A, r)
	case "not":
		v, m, x := refEval(e.A, r)
		return !v, m, x
	case "and", "or":
		a, m1, x1 := refEval(e.A, r)
		b, m2, x2 := refEval(e.B, r)
		if e.Op == "and" {
			return a && b, m1 || m2, x1 || x2
		}
		return a || b, m1 || m2, x1 || x2
	}
	lv := r[e.Left]
	var rv bq.Val
	switch {
	case e.RB != "":
		rv = r[e.RB]
		if lv.Kind == 0 || rv.Kind == 0 || lv.SubKind() != rv.SubKind() {
			return false, false, true
		}
	case e.RLit != nil:
		rv = bq.Val{Kind: 'L', L: e.RLit}
		// an extracted id/type (S) compares with a text constant lexicographically
		if lv.Kind == 'S' && e.RLit.Kind == "text" {
			lv = bq.Val{Kind: 'L', L: &model.LitSpec{Kind: "text", S: *lv.S}}
		}
	case e.RNode != nil:
		rv = bq.Val{Kind: 'N', N: e.RNode}
	case e.RPred != nil:
		rv = bq.Val{Kind: 'P', P: e.RPred}
	case e.RTime != nil:
		rv = bq.Val{Kind: 'T', T: e.RTime}
	}
	if lv.Kind == 0 || lv.SubKind() != rv.SubKind() {
		return false, true, false
	}
	cmp := e.Cmp
	if e.Swap { // `constant op binding` means `binding mirrored-op constant`
		cmp = map[string]string{"=": "=", "<": ">", ">": "<"}[cmp]
	}
	switch cmp {
	case "=":
		if lv.Kind == 'L' && (lv.L.Kind == "int64" || lv.L.Kind == "float64" || lv.L.Kind == "text") {
			c, _ := bq.CompareSameKind(lv, rv, false)
			return c == 0, false, false
		}
		return lv.Key() == rv.Key(), false, false
	default:
		c, ok := bq.CompareSameKind(lv, rv, false)
		if !ok {
			return false, true, false
		}
		if cmp == "<" {
			return c < 0, false, false
		}
		return c > 0, false, false
	}
}

func exprHasConstCmp(e *bq.Expr) bool {
	switch e.Op {
	case "cmp":
		return e.RB == ""
	case "not", "par":
		return exprHasConstCmp(e.A)
	}
	return exprHasConstCmp(e.A) || exprHasConstCmp(e.B)
}

func checkC13(ctx *pbt.Ctx, c c13Case) error {
	for _, id := range c.Excluded {
		ctx.Excluded(id)
	}
	base := c.base()
	if len(base.Proj) == 0 {
		ctx.Label("no-bindings")
		return nil
	}
	bout, err := runBQL(BQLReq{Graphs: datasetGraphs(c.Data), Runs: []RunSpec{{Text: base.String()}}})
	if err != nil {
		return err
	}
	if bout.Hung && !bout.Crashed {
		ctx.Label("no-result-within-bound-twice(C08)")
		return nil // termination is C08's statement; this property cannot judge a run without a result
	}
	if bout.Crashed || bout.Hung {
		ctx.Label("base-query-crashes(C03/C08)")
		return nil
	}
	bres := bout.Resp.Results[0]
	if bres.Stage != "ok" || bres.Panic != "" {
		ctx.Label("base-query-fails(C03/C11)")
		if os.Getenv("DBG_BASE") != "" {
			return fmt.Errorf("base query %q fails: %s %s %s", base.String(), bres.Stage, bres.Err, bres.Panic)
		}
		return nil
	}
	V := rowEnvs(bres)
	cols := outCols(base)
	kinds := bq.BindingKinds(V)
	ch := &chooser{c: c.Choices, constFirst: c.ConstFirst}
	expr := c13Expr(ch, V, cols, kinds, 2)
	full := base
	full.Having = expr
	text := full.String()
	out, err := runBQL(BQLReq{Graphs: datasetGraphs(c.Data), Runs: []RunSpec{{Text: text}}})
	if err != nil {
		return err
	}
	if out.Hung && !out.Crashed {
		ctx.Label("no-result-within-bound-twice(C08)")
		return nil // termination is C08's statement; this property cannot judge a run without a result
	}
	if out.Crashed || out.Hung {
		return fmt.Errorf("executing %q crashed=%v hung=%v: %s", text, out.Crashed, out.Hung, lastLines(out.Stderr, 10))
	}
	res := out.Resp.Results[0]
	if res.Panic != "" {
		return fmt.Errorf("%q panicked: %s", text, res.Panic)
	}
	if res.Stage == "parse" {
		if c.ConstFirst != 0 && ch.nconst > 0 {
			ctx.Label("rejected-by-parser(constant-first comparison)")
		} else {
			ctx.Label("rejected-by-parser")
		}
		return nil
	}
	if c.ConstFirst != 0 {
		ctx.Label("constant-first comparison accepted")
	}
	var want []bq.Env
	anyMismatch, anyExempt := false, false
	for _, r := range V {
		v, m, x := refEval(expr, r)
		anyMismatch = anyMismatch || m
		anyExempt = anyExempt || x
		if v {
			want = append(want, r)
		}
	}
	if anyExempt {
		ctx.Label("exempt(binding-binding of different kinds)")
		return nil
	}
	if res.Stage != "ok" {
		if anyMismatch && exprHasConstCmp(expr) {
			ctx.Label("rejected(different-kind comparison)")
			return nil
		}
		return fmt.Errorf("%q fails (%s: %s) although every comparison is between values of the same kind; without HAVING there are %d rows", text, res.Stage, res.Err, len(V))
	}
	got := rowKeys(res)
	wk := envKeys(want, cols)
	if !sameMultiset(wk, got) {
		return fmt.Errorf("%q keeps the wrong rows (of %d without HAVING):\n  %s\n data: %s", text, len(V), diffMultiset(wk, got), describeData(c.Data))
	}
	if len(V) >= 2 && len(want) > 0 && len(want) < len(V) {
		ctx.Nontrivial()
	}
	var walk func(e *bq.Expr)
	walk = func(e *bq.Expr) {
		switch e.Op {
		case "cmp":
			switch {
			case e.RB != "":
				ctx.Label("cmp:binding")
			case e.RLit != nil:
				ctx.Label("cmp:lit:" + e.RLit.Kind)
			case e.RNode != nil:
				ctx.Label("cmp:node")
			case e.RPred != nil:
				ctx.Label("cmp:pred")
			default:
				ctx.Label("cmp:time")
			}
		case "not", "par":
			ctx.Label("op:" + e.Op)
			walk(e.A)
		default:
			ctx.Label("op:" + e.Op)
			walk(e.A)
			walk(e.B)
		}
	}
	walk(expr)
	if anyMismatch {
		ctx.Label("different-kind-comparison")
	}
	if c.Grouped && c.Shadow {
		ctx.Label("grouped-alias-shadows-a-binding")
	}
	if c.Grouped {
		ctx.Label("grouped")
	}
	return nil
}

func TestC13(t *testing.T) {
	pbt.Run(t, "C13", "TestC13", genC13, checkC13)
}
