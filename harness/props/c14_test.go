package props

// C14 — query results depend only on data and query meaning, not on order or scheduling.

import (
	"fmt"
	"sort"
	"strings"
	"testing"

	"verif/harness/bq"
	"verif/harness/gen"
	"verif/harness/model"
	"verif/harness/pbt"

	"pgregory.net/rapid"
)

type c14Case struct {
	Triples  []model.TripleSpec `json:"triples"` // the data, all in ?g0 for the base run
	Extra    []model.TripleSpec `json:"extra"`   // added for the monotonicity variant
	Q        bq.Query           `json:"q"`       // FROM ?g0
	Optional bool               `json:"optional,omitempty"`
	Part     []int              `json:"part"`  // graph index (0..2) per triple for the partition variant
	Perm     []int              `json:"perm"`  // clause permutation
	Names    []int              `json:"names"` // renaming choices
	Excluded []string           `json:"excluded,omitempty"`
}

func genC14(t *rapid.T) c14Case {
	u := bq.DefaultUniverse()
	var c c14Case
	pool := make([]model.TripleSpec, 3+gen.Uniform(t, 10, "npool"))
	for i := range pool {
		pool[i] = u.GenTriple(t, "pool")
	}
	seen := map[string]bool{}
	n := 2 + gen.Uniform(t, 10, "ntriples")
	for i := 0; i < n; i++ {
		tr := gen.Pick(t, pool, "t")
		if !seen[tr.Key()] {
			seen[tr.Key()] = true
			c.Triples = append(c.Triples, tr)
		}
	}
	ne := 1 + gen.Uniform(t, 4, "nextra")
	for i := 0; i < ne; i++ {
		var tr model.TripleSpec
		if gen.Maybe(t, 50, "extrapool") {
			tr = gen.Pick(t, pool, "et")
		} else {
			tr = u.GenTriple(t, "en")
		}
		if !seen[tr.Key()] {
			seen[tr.Key()] = true
			c.Extra = append(c.Extra, tr)
		}
	}
	g := &bq.QGen{T: t, U: u, Data: c.Triples}
	nc := 1 + gen.Uniform(t, 4, "nclauses")
	var q bq.Query
	for i := 0; i < nc; i++ {
		q.Clauses = append(q.Clauses, g.GenClauseMixed(fmt.Sprintf("c%d", i), bq.ClauseOpts{}))
	}
	if gen.Maybe(t, 20, "optional") {
		q.Clauses = g.GenOptionalize(q.Clauses, 40)
		for _, cl := range q.Clauses {
			c.Optional = c.Optional || cl.Optional
		}
	}
	if !c.Optional {
		if cs, ch := g.AliasBounds(q.Clauses, 30, true); ch {
			q.Clauses = cs
		}
	}
	if cs, renamed := avoidObjIDReuse(q.Clauses); renamed {
		q.Clauses = cs
		c.Excluded = append(c.Excluded, "KF-C03-OBJ-ID-UNCHECKED")
	}
	if cs, changed := avoidBindinglessClause(q.Clauses); changed {
		q.Clauses = cs
		c.Excluded = append(c.Excluded, "KF-C03-BINDINGLESS-CLAUSE")
	}
	q.From = []string{"?g0"}
	q.Proj = g.GenProjection(bq.AllBindings(q.Clauses))
	if gen.Maybe(t, 15, "hasglobal") {
		q.Global = g.GenGlobal()
	}
	if outs := outCols(q); gen.Maybe(t, 30, "ordered") && len(outs) > 0 {
		nk := 1 + gen.Uniform(t, 2, "nord")
		for i := 0; i < nk; i++ {
			q.OrderBy = append(q.OrderBy, bq.OrderKey{Binding: gen.Pick(t, outs, "ok"), Dir: gen.Pick(t, []string{"", "asc", "desc"}, "odir")})
		}
		// the parser rejects contradicting directions for a repeated key
		dir := map[string]string{}
		for i, k := range q.OrderBy {
			if d, ok := dir[k.Binding]; ok {
				q.OrderBy[i].Dir = d
			} else {
				dir[k.Binding] = k.Dir
			}
		}
	}
	c.Q = q
	for range c.Triples {
		c.Part = append(c.Part, gen.Uniform(t, 3, "part"))
	}
	c.Perm = rapid.Permutation(intsUpTo(nc)).Draw(t, "perm")
	for i := 0; i < 40; i++ {
		c.Names = append(c.Names, gen.Uniform(t, 1000, "name"))
	}
	return c
}

func intsUpTo(n int) []int {
	out := make([]int, n)
	for i := range out {
		out[i] = i
	}
	return out
}

// renameQuery applies a bijective renaming to every binding of the query.
func renameQuery(q bq.Query, m map[string]string) bq.Query {
	f := func(s string) string {
		if s == "" {
			return s
		}
		if v, ok := m[s]; ok {
			return v
		}
		return s
	}
	out := q
	out.Clauses = nil
	for _, c := range q.Clauses {
		out.Clauses = append(out.Clauses, renameBindings(c, f))
	}
	out.Proj = nil
	for _, p := range q.Proj {
		out.Proj = append(out.Proj, bq.Proj{Binding: f(p.Binding), Alias: f(p.Alias), Op: p.Op})
	}
	out.OrderBy = nil
	for _, k := range q.OrderBy {
		out.OrderBy = append(out.OrderBy, bq.OrderKey{Binding: f(k.Binding), Dir: k.Dir})
	}
	return out
}

type c14Outcome struct {
	err  bool
	keys []string // canonical rows in result order
	msg  string
}

func c14Result(res RunResult, rename map[string]string) c14Outcome {
	if res.Panic != "" {
		return c14Outcome{err: true, msg: "panic: " + res.Panic}
	}
	if res.Stage != "ok" {
		return c14Outcome{err: true, msg: res.Stage + ": " + res.Err}
	}
	if rename != nil {
		back := map[string]string{}
		for k, v := range rename {
			back[v] = k
		}
		cols := make([]string, len(res.Cols))
		for i, c := range res.Cols {
			if o, ok := back[c]; ok {
				cols[i] = o
			} else {
				cols[i] = c
			}
		}
		res.Cols = cols
	}
	return c14Outcome{keys: rowKeys(res)}
}

func sameOutcome(a, b c14Outcome, sequence bool) bool {
	if a.err != b.err {
		return false
	}
	if a.err {
		return true
	}
	if sequence {
		return strings.Join(a.keys, "\n") == strings.Join(b.keys, "\n")
	}
	return sameMultiset(a.keys, b.keys)
}

func checkC14(ctx *pbt.Ctx, c c14Case) error {
	for _, id := range c.Excluded {
		ctx.Excluded(id)
	}
	text := c.Q.String()
	one := []GraphSpec{{Name: "?g0", Triples: c.Triples}}
	// base run + repetitions with other channel / bulk sizes and processor counts
	runs := []RunSpec{{Text: text}}
	cfgs := [][3]int{{1, 1, 1}, {3, 2, 2}, {64, 10, 16}, {0, 0, 2}, {1, 10, 16}}
	for _, cf := range cfgs {
		runs = append(runs, RunSpec{Text: text, ChanSize: cf[0], BulkSize: cf[1], Procs: cf[2]})
	}
	out, err := runBQL(BQLReq{Graphs: one, Runs: runs})
	if err != nil {
		return err
	}
	if out.Hung && !out.Crashed {
		ctx.Label("no-result-within-bound-twice(C08)")
		return nil // termination is C08's statement; this property cannot judge a run without a result
	}
	if out.Crashed || out.Hung {
		return fmt.Errorf("executing %q crashed=%v hung=%v: %s", text, out.Crashed, out.Hung, lastLines(out.Stderr, 10))
	}
	if out.Resp.Results[0].Stage == "parse" {
		if err := syntaxRejection(text, out.Resp.Results[0].Err, len(c.Q.Proj)); err != nil {
			return err
		}
		ctx.Label("rejected-by-parser")
		return nil
	}
	base := c14Result(out.Resp.Results[0], nil)
	// a total ORDER BY: key tuples pairwise distinct in the base result
	total := false
	if len(c.Q.OrderBy) > 0 && !base.err {
		envs := rowEnvs(out.Resp.Results[0])
		var kc []string
		for _, k := range c.Q.OrderBy {
			kc = append(kc, k.Binding)
		}
		seen := map[string]bool{}
		total = true
		for _, e := range envs {
			k := restrictKey(e, kc)
			if seen[k] {
				total = false
			}
			seen[k] = true
		}
		// values of different kinds (or NULL) in a key column are not ordered by
		// ORDER BY, so such a key list does not determine a total order
		for _, ok := range sortableColumns(envs, c.Q.OrderBy) {
			total = total && ok
		}
	}
	for i, r := range out.Resp.Results[1:] {
		v := c14Result(r, nil)
		if !sameOutcome(base, v, total) {
			return fmt.Errorf("%q: run with chanSize=%d bulkSize=%d GOMAXPROCS=%d differs from the first run (sequence compared: %v):\n first: %s %v\n this:  %s %v", text, cfgs[i][0], cfgs[i][1], cfgs[i][2], total, base.msg, base.keys, v.msg, v.keys)
		}
	}
	if total {
		ctx.Label("total-order-by")
	}
	variants := 0
	// renaming
	{
		names := append(bq.AllBindings(c.Q.Clauses), outCols(c.Q)...)
		sort.Strings(names)
		uniq := names[:0]
		for i, n := range names {
			if i == 0 || n != names[i-1] {
				uniq = append(uniq, n)
			}
		}
		m := map[string]string{}
		for i, n := range uniq {
			k := c.Names[i%len(c.Names)]
			// new names of different lengths that sort differently from the old ones
			m[n] = fmt.Sprintf("?%s%d", strings.Repeat("z", 1+k%3), (len(uniq)-i)*7+k%5)
		}
		// make sure the renaming is injective
		inj := map[string]bool{}
		okInj := true
		for _, v := range m {
			if inj[v] {
				okInj = false
			}
			inj[v] = true
		}
		if okInj && len(m) > 0 {
			rq := renameQuery(c.Q, m)
			ro, err := runBQL(BQLReq{Graphs: one, Runs: []RunSpec{{Text: rq.String()}}})
			if err != nil {
				return err
			}
			if ro.Hung && !ro.Crashed {
				ctx.Label("no-result-within-bound-twice(C08)")
				return nil // termination is C08's statement; this property cannot judge a run without a result
			}
			if ro.Crashed || ro.Hung {
				return fmt.Errorf("renamed query %q crashed/hung: %s", rq.String(), lastLines(ro.Stderr, 8))
			}
			v := c14Result(ro.Resp.Results[0], m)
			if !sameOutcome(base, v, total) {
				return fmt.Errorf("renaming the bindings changes the result:\n %q -> %s %v\n %q -> %s %v", text, base.msg, base.keys, rq.String(), v.msg, v.keys)
			}
			variants++
		}
	}
	// partition of the data over 2-3 graphs, all listed in FROM
	{
		parts := map[int][]model.TripleSpec{}
		for i, tr := range c.Triples {
			parts[c.Part[i%len(c.Part)]] = append(parts[c.Part[i%len(c.Part)]], tr)
		}
		nonEmpty := 0
		for _, p := range parts {
			if len(p) > 0 {
				nonEmpty++
			}
		}
		if nonEmpty >= 2 {
			var gs []GraphSpec
			var from []string
			for i := 0; i < 3; i++ {
				if len(parts[i]) > 0 {
					gs = append(gs, GraphSpec{Name: bq.GraphNames[i], Triples: parts[i]})
					from = append(from, bq.GraphNames[i])
				}
			}
			pq := c.Q
			pq.From = from
			po, err := runBQL(BQLReq{Graphs: gs, Runs: []RunSpec{{Text: pq.String()}}})
			if err != nil {
				return err
			}
			if po.Hung && !po.Crashed {
				ctx.Label("no-result-within-bound-twice(C08)")
				return nil // termination is C08's statement; this property cannot judge a run without a result
			}
			if po.Crashed || po.Hung {
				return fmt.Errorf("partitioned query %q crashed/hung: %s", pq.String(), lastLines(po.Stderr, 8))
			}
			v := c14Result(po.Resp.Results[0], nil)
			if !sameOutcome(base, v, false) {
				return fmt.Errorf("partitioning the data over the graphs %v changes the result of %q:\n one graph:   %s %v\n partitioned: %s %v\n data: %v", from, text, base.msg, base.keys, v.msg, v.keys, describeData(bq.Dataset{"?g0": c.Triples}))
			}
			ctx.Label("partitioned")
			variants++
		}
	}
	// clause order (no OPTIONAL)
	if !c.Optional && len(c.Q.Clauses) >= 2 {
		identity := true
		for i, p := range c.Perm {
			if p != i {
				identity = false
			}
		}
		if !identity && len(c.Perm) == len(c.Q.Clauses) {
			pq := c.Q
			pq.Clauses = nil
			for _, p := range c.Perm {
				pq.Clauses = append(pq.Clauses, c.Q.Clauses[p])
			}
			po, err := runBQL(BQLReq{Graphs: one, Runs: []RunSpec{{Text: pq.String()}}})
			if err != nil {
				return err
			}
			if po.Hung && !po.Crashed {
				ctx.Label("no-result-within-bound-twice(C08)")
				return nil // termination is C08's statement; this property cannot judge a run without a result
			}
			if po.Crashed || po.Hung {
				return fmt.Errorf("permuted query %q crashed/hung: %s", pq.String(), lastLines(po.Stderr, 8))
			}
			v := c14Result(po.Resp.Results[0], nil)
			if !sameOutcome(base, v, false) {
				return fmt.Errorf("the order of the clauses changes the result:\n %q -> %s %v\n %q -> %s %v\n data: %s", text, base.msg, base.keys, pq.String(), v.msg, v.keys, describeData(bq.Dataset{"?g0": c.Triples}))
			}
			ctx.Label("clauses-permuted")
			variants++
		}
	}
	// monotonicity (no OPTIONAL, no aggregates/FILTER/LIMIT in this generator)
	if !c.Optional && len(c.Extra) > 0 && !base.err {
		more := []GraphSpec{{Name: "?g0", Triples: append(append([]model.TripleSpec{}, c.Triples...), c.Extra...)}}
		mo, err := runBQL(BQLReq{Graphs: more, Runs: []RunSpec{{Text: text}}})
		if err != nil {
			return err
		}
		if mo.Hung && !mo.Crashed {
			ctx.Label("no-result-within-bound-twice(C08)")
			return nil // termination is C08's statement; this property cannot judge a run without a result
		}
		if mo.Crashed || mo.Hung {
			return fmt.Errorf("query %q on the extended data crashed/hung: %s", text, lastLines(mo.Stderr, 8))
		}
		v := c14Result(mo.Resp.Results[0], nil)
		if v.err {
			return fmt.Errorf("adding triples makes %q fail (%s) although it returned %d rows before", text, v.msg, len(base.keys))
		}
		cnt := map[string]int{}
		for _, k := range v.keys {
			cnt[k]++
		}
		for _, k := range base.keys {
			cnt[k]--
			if cnt[k] < 0 {
				return fmt.Errorf("adding the triples %v removed the row {%s} from the result of %q", describeData(bq.Dataset{"+": c.Extra}), k, text)
			}
		}
		ctx.Label("superset")
		variants++
	}
	if !base.err && len(base.keys) >= 2 && variants >= 2 {
		ctx.Nontrivial()
	}
	if base.err {
		ctx.Label("base-errors")
	}
	return nil
}

func TestC14(t *testing.T) {
	pbt.Run(t, "C14", "TestC14", genC14, checkC14)
}
