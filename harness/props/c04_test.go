package props

// C04 — data and graph statements change the store exactly as stated, nothing else.

import (
	"fmt"
	"sort"
	"strings"
	"testing"

	"verif/harness/bq"
	"verif/harness/gen"
	"verif/harness/model"
	"verif/harness/pbt"

	"pgregory.net/rapid"
)

var c04Names = []string{"?g0", "?g1", "?g2", "?g3"}

type c04Stmt struct {
	Graph *bq.GraphStmt `json:"graph,omitempty"`
	Data  *bq.DataStmt  `json:"data,omitempty"`
	Cons  *bq.Construct `json:"cons,omitempty"`
	Raw   string        `json:"raw,omitempty"` // text the parser must reject
	Bulk  int           `json:"bulk,omitempty"`
}

func (s c04Stmt) text() string {
	switch {
	case s.Graph != nil:
		return s.Graph.String()
	case s.Data != nil:
		return s.Data.String()
	case s.Cons != nil:
		return s.Cons.String()
	}
	return s.Raw
}

type c04Case struct {
	Init  bq.Dataset `json:"init"`
	Stmts []c04Stmt  `json:"stmts"`
}

func c04Universe() bq.Universe {
	u := bq.DefaultUniverse()
	u.Nodes = u.Nodes[:4]
	u.PredIDs = u.PredIDs[:3]
	u.Anchors = u.Anchors[:3]
	return u
}

// c04Likely holds the graphs that exist initially (generation-time hint so that
// most statements name existing graphs).
var c04Likely []string

func genGraphList(t *rapid.T, label string, max int) []string {
	n := 1 + gen.Uniform(t, max, label+"n")
	seen := map[string]bool{}
	var out []string
	for i := 0; i < n; i++ {
		g := gen.Pick(t, c04Names, label)
		if len(c04Likely) > 0 && gen.Maybe(t, 85, label+"likely") {
			g = gen.Pick(t, c04Likely, label+"l")
		}
		if !seen[g] {
			seen[g] = true
			out = append(out, g)
		}
	}
	return out
}

func genC04(t *rapid.T) c04Case {
	u := c04Universe()
	var c c04Case
	c.Init = bq.Dataset{}
	pool := make([]model.TripleSpec, 4+gen.Uniform(t, 8, "npool"))
	for i := range pool {
		pool[i] = u.GenTriple(t, "pool")
	}
	c04Likely = c04Names[:2+gen.Uniform(t, 2, "ninit")]
	for _, g := range c04Likely {
		seen := map[string]bool{}
		c.Init[g] = []model.TripleSpec{}
		for i, n := 0, gen.Uniform(t, 7, "ninitt"); i < n; i++ {
			tr := gen.Pick(t, pool, "it")
			if !seen[tr.Key()] {
				seen[tr.Key()] = true
				c.Init[g] = append(c.Init[g], tr)
			}
		}
	}
	g := &bq.QGen{T: t, U: u, Data: pool}
	n := 1 + gen.Uniform(t, 10, "nstmts")
	for i := 0; i < n; i++ {
		var s c04Stmt
		s.Bulk = gen.Pick(t, []int{0, 1, 2, 10}, "bulk")
		switch k := gen.Uniform(t, 100, "kind"); {
		case k < 7:
			s.Graph = &bq.GraphStmt{Drop: gen.Maybe(t, 50, "drop"), Graphs: genGraphList(t, "gs", 3)}
		case k < 40:
			d := bq.DataStmt{Delete: gen.Maybe(t, 40, "del"), Graphs: genGraphList(t, "dg", 3)}
			for j, m := 0, 1+gen.Uniform(t, 6, "ndata"); j < m; j++ {
				if gen.Maybe(t, 75, "dpool") {
					d.Triples = append(d.Triples, gen.Pick(t, pool, "dt"))
				} else {
					d.Triples = append(d.Triples, u.GenTriple(t, "dn"))
				}
			}
			s.Data = &d
		case k < 88:
			s.Cons = genC04Construct(t, g, u)
		default:
			// a statement the parser rejects: a valid one with a token removed or truncated
			var base string
			if gen.Maybe(t, 50, "rawdata") {
				base = bq.DataStmt{Graphs: genGraphList(t, "rg", 2), Triples: []model.TripleSpec{gen.Pick(t, pool, "rt")}}.String()
			} else {
				base = genC04Construct(t, g, u).String()
			}
			sp := tokenSpans(base)
			if len(sp) > 3 {
				k := gen.Uniform(t, len(sp)-1, "cut")
				if gen.Maybe(t, 50, "trunc") {
					base = base[:sp[k][0]]
				} else {
					base = base[:sp[k][0]] + base[sp[k][1]:]
				}
			}
			s.Raw = base
		}
		c.Stmts = append(c.Stmts, s)
	}
	return c
}

func genC04Construct(t *rapid.T, g *bq.QGen, u bq.Universe) *bq.Construct {
	c := &bq.Construct{De: gen.Maybe(t, 35, "de")}
	c.From = genGraphList(t, "cfrom", 2)
	c.Into = genGraphList(t, "cinto", 2)
	nc := 1 + gen.Uniform(t, 2, "nwhere")
	for i := 0; i < nc; i++ {
		var cl bq.Clause
		if gen.Maybe(t, 65, "plain") {
			cl = bq.Clause{S: bq.SPos{Binding: fmt.Sprintf("?s%d", i)}, P: bq.PPos{Binding: fmt.Sprintf("?p%d", i)}, O: bq.OPos{Binding: fmt.Sprintf("?o%d", i)}}
			switch gen.Uniform(t, 4, "pform") {
			case 0:
				cl.P = bq.PPos{AnchorID: gen.Pick(t, u.PredIDs, "aid"), AnchorB: fmt.Sprintf("?t%d", i)}
			case 1:
				p := model.PredSpec{ID: gen.Pick(t, u.PredIDs, "pid")}
				cl.P = bq.PPos{Pred: &p}
			}
			if i > 0 && gen.Maybe(t, 40, "join") {
				cl.S.Binding = "?o0"
			}
		} else {
			cl = g.GenClauseMixed(fmt.Sprintf("w%d", i), bq.ClauseOpts{})
		}
		c.Clauses = append(c.Clauses, cl)
	}
	if cs, renamed := avoidObjIDReuse(c.Clauses); renamed {
		c.Clauses = cs
	}
	if cs, changed := avoidBindinglessClause(c.Clauses); changed {
		c.Clauses = cs
	}
	all := bq.AllBindings(c.Clauses)
	pick := func(prefix string, label string) (string, bool) {
		var cand []string
		for _, b := range all {
			if strings.HasPrefix(b, prefix) {
				cand = append(cand, b)
			}
		}
		if len(cand) == 0 || gen.Maybe(t, 12, label+"any") {
			cand = all
		}
		if len(cand) == 0 {
			return "", false
		}
		return gen.Pick(t, cand, label), true
	}
	nt := 1 + gen.Uniform(t, 3, "ntemplate")
	for i := 0; i < nt; i++ {
		var tc bq.TClause
		// subject
		switch k := gen.Uniform(t, 10, "tsk"); {
		case k < 2:
			n := gen.Pick(t, u.Nodes, "tsn")
			tc.S = bq.TPos{Node: &n}
		case k < 4 && !c.De:
			tc.S = bq.TPos{Blank: gen.Pick(t, []string{"v", "w"}, "tsb")}
		default:
			if b, ok := pick("?s", "tsbind"); ok {
				tc.S = bq.TPos{Binding: b}
			} else {
				n := gen.Pick(t, u.Nodes, "tsn2")
				tc.S = bq.TPos{Node: &n}
			}
		}
		np := 1
		if !c.De && gen.Maybe(t, 60, "reify") {
			np = 2 + gen.Uniform(t, 2, "npairs")
		}
		for j := 0; j < np; j++ {
			var pr bq.TPair
			switch k := gen.Uniform(t, 10, "tpk"); {
			case k < 4:
				p := u.GenPred(t, "tpp")
				pr.P = bq.TPos{Pred: &p}
			case k < 6:
				if b, ok := pick("?t", "tpa"); ok {
					pr.P = bq.TPos{AnchorID: gen.Pick(t, u.PredIDs, "tpaid"), AnchorB: b}
				} else {
					p := u.GenPred(t, "tpp2")
					pr.P = bq.TPos{Pred: &p}
				}
			default:
				if b, ok := pick("?p", "tpb"); ok {
					pr.P = bq.TPos{Binding: b}
				} else {
					p := u.GenPred(t, "tpp3")
					pr.P = bq.TPos{Pred: &p}
				}
			}
			switch k := gen.Uniform(t, 10, "tok"); {
			case k < 2:
				n := gen.Pick(t, u.Nodes, "ton")
				pr.O = bq.TPos{Node: &n}
			case k < 3:
				l := gen.Pick(t, u.Lits, "tol")
				pr.O = bq.TPos{Lit: &l}
			case k < 4:
				p := u.GenPred(t, "top")
				pr.O = bq.TPos{Pred: &p}
			case k < 5 && !c.De:
				pr.O = bq.TPos{Blank: gen.Pick(t, []string{"v", "w"}, "tob")}
			case k < 7:
				// a predicate-valued object anchored by a time binding: "id"@[?t] (its own
				// binding, which may differ from the one anchoring the predicate position)
				if b, ok := pick("?t", "toa"); ok {
					pr.O = bq.TPos{AnchorID: gen.Pick(t, u.PredIDs, "toaid"), AnchorB: b}
				} else if b, ok := pick("?o", "tobind0"); ok {
					pr.O = bq.TPos{Binding: b}
				} else {
					n := gen.Pick(t, u.Nodes, "ton0")
					pr.O = bq.TPos{Node: &n}
				}
			default:
				if b, ok := pick("?o", "tobind"); ok {
					pr.O = bq.TPos{Binding: b}
				} else {
					n := gen.Pick(t, u.Nodes, "ton2")
					pr.O = bq.TPos{Node: &n}
				}
			}
			tc.Pairs = append(tc.Pairs, pr)
		}
		c.Template = append(c.Template, tc)
	}
	return c
}

// ---- model ----

type c04State map[string]map[string]model.TripleSpec // graph -> key -> triple

func stateOf(d map[string][]model.TripleSpec) c04State {
	s := c04State{}
	for g, ts := range d {
		s[g] = map[string]model.TripleSpec{}
		for _, t := range ts {
			s[g][t.Key()] = t
		}
	}
	return s
}

func (s c04State) clone() c04State {
	o := c04State{}
	for g, m := range s {
		o[g] = map[string]model.TripleSpec{}
		for k, v := range m {
			o[g][k] = v
		}
	}
	return o
}

func (s c04State) names() []string {
	var n []string
	for g := range s {
		n = append(n, g)
	}
	sort.Strings(n)
	return n
}

func keysOf(m map[string]model.TripleSpec) []string {
	var k []string
	for x := range m {
		k = append(k, x)
	}
	sort.Strings(k)
	return k
}

func sameGraph(a, b map[string]model.TripleSpec) bool {
	if len(a) != len(b) {
		return false
	}
	for k := range a {
		if _, ok := b[k]; !ok {
			return false
		}
	}
	return true
}

func diffGraph(want, got map[string]model.TripleSpec) string {
	var miss, extra []string
	for k := range want {
		if _, ok := got[k]; !ok {
			miss = append(miss, k)
		}
	}
	for k := range got {
		if _, ok := want[k]; !ok {
			extra = append(extra, k)
		}
	}
	sort.Strings(miss)
	sort.Strings(extra)
	return fmt.Sprintf("missing %v, not expected %v", miss, extra)
}

// unchangedExcept checks that every graph not in except is unchanged and the graph set is the same outside except.
func unchangedExcept(pre, post c04State, except map[string]bool) error {
	for g, m := range pre {
		if except[g] {
			continue
		}
		pm, ok := post[g]
		if !ok {
			return fmt.Errorf("graph %s disappeared", g)
		}
		if !sameGraph(m, pm) {
			return fmt.Errorf("graph %s changed: %s", g, diffGraph(m, pm))
		}
	}
	for g := range post {
		if _, ok := pre[g]; !ok && !except[g] {
			return fmt.Errorf("graph %s appeared", g)
		}
	}
	return nil
}

// ---- template instantiation (reference) ----

type c04Group struct {
	sig []string // sorted "predKey objKey" entries; the blank node itself is written as _B
}

func valNode(v bq.Val) (model.NodeSpec, bool) {
	if v.Kind == 'N' {
		return *v.N, true
	}
	return model.NodeSpec{}, false
}

func instTPos(p bq.TPos, row bq.Env, pos byte) (obj model.ObjSpec, pred model.PredSpec, node model.NodeSpec, ok bool) {
	switch {
	case p.Node != nil:
		n := *p.Node
		return model.ObjSpec{N: &n}, model.PredSpec{}, n, pos != 'P'
	case p.Blank != "":
		n := model.NodeSpec{Type: "/_", ID: p.Blank}
		return model.ObjSpec{N: &n}, model.PredSpec{}, n, pos != 'P'
	case p.Lit != nil:
		l := *p.Lit
		return model.ObjSpec{L: &l}, model.PredSpec{}, model.NodeSpec{}, pos == 'O'
	case p.Pred != nil:
		pp := *p.Pred
		return model.ObjSpec{P: &pp}, pp, model.NodeSpec{}, pos != 'S'
	case p.AnchorID != "":
		v, has := row[p.AnchorB]
		if !has || v.Kind != 'T' {
			return obj, pred, node, false
		}
		a := *v.T
		pp := model.PredSpec{ID: p.AnchorID, Anchor: &a}
		return model.ObjSpec{P: &pp}, pp, model.NodeSpec{}, pos != 'S'
	}
	v, has := row[p.Binding]
	if !has {
		return obj, pred, node, false
	}
	switch pos {
	case 'S':
		n, isN := valNode(v)
		return model.ObjSpec{}, model.PredSpec{}, n, isN
	case 'P':
		if v.Kind != 'P' {
			return obj, pred, node, false
		}
		return model.ObjSpec{}, *v.P, model.NodeSpec{}, true
	default:
		switch v.Kind {
		case 'N':
			n := *v.N
			return model.ObjSpec{N: &n}, pred, node, true
		case 'P':
			pp := *v.P
			return model.ObjSpec{P: &pp}, pred, node, true
		case 'L':
			l := *v.L
			return model.ObjSpec{L: &l}, pred, node, true
		}
		return obj, pred, node, false // time / string / NULL cells cannot become objects
	}
}

// instantiate returns the plain triples and the blank-node groups the template
// produces for the rows; ok=false if some row cannot instantiate some clause
// (runtime error expected: no state requirement).
func instantiate(c *bq.Construct, rows []bq.Env) (plain []model.TripleSpec, groups []c04Group, ok bool) {
	ok = true
	for _, tc := range c.Template {
		for _, row := range rows {
			_, _, s, sok := instTPos(tc.S, row, 'S')
			_, p0, _, pok := instTPos(tc.Pairs[0].P, row, 'P')
			o0, _, _, ook := instTPos(tc.Pairs[0].O, row, 'O')
			if !sok || !pok || !ook {
				return nil, nil, false
			}
			if len(tc.Pairs) == 1 {
				plain = append(plain, model.TripleSpec{S: s, P: p0, O: o0})
				continue
			}
			rp := func(id string) model.PredSpec {
				if p0.Anchor != nil {
					a := *p0.Anchor
					return model.PredSpec{ID: id, Anchor: &a}
				}
				return model.PredSpec{ID: id}
			}
			var g c04Group
			add := func(p model.PredSpec, o model.ObjSpec) {
				g.sig = append(g.sig, p.Key()+" "+o.Key())
			}
			sn := s
			add(rp("_subject"), model.ObjSpec{N: &sn})
			pp := p0
			add(rp("_predicate"), model.ObjSpec{P: &pp})
			add(rp("_object"), o0)
			for _, pr := range tc.Pairs[1:] {
				_, pi, _, pok := instTPos(pr.P, row, 'P')
				oi, _, _, ook := instTPos(pr.O, row, 'O')
				if !pok || !ook {
					return nil, nil, false
				}
				add(pi, oi)
			}
			// a graph is a set: an extra pair may repeat a reification triple
			sort.Strings(g.sig)
			uniq := g.sig[:0]
			for i, x := range g.sig {
				if i == 0 || x != g.sig[i-1] {
					uniq = append(uniq, x)
				}
			}
			g.sig = uniq
			groups = append(groups, g)
		}
	}
	return plain, groups, true
}

func checkC04(ctx *pbt.Ctx, c c04Case) error {
	// one worker request: the statements run in order on one store; a CONSTRUCT is
	// preceded by the SELECT of its WHERE pattern (solution rows on the pre-state)
	var runs []RunSpec
	type idx struct{ sel, stmt int }
	var where []idx
	for _, s := range c.Stmts {
		ix := idx{sel: -1}
		if s.Cons != nil {
			var q bq.Query
			q.From, q.Clauses = s.Cons.From, s.Cons.Clauses
			for _, b := range bq.AllBindings(s.Cons.Clauses) {
				q.Proj = append(q.Proj, bq.Proj{Binding: b})
			}
			if len(q.Proj) > 0 {
				ix.sel = len(runs)
				runs = append(runs, RunSpec{Text: q.String()})
			}
		}
		ix.stmt = len(runs)
		runs = append(runs, RunSpec{Text: s.text(), BulkSize: s.Bulk, Dump: true})
		where = append(where, ix)
	}
	out, err := runBQL(BQLReq{Graphs: datasetGraphs(c.Init), Runs: runs, MaxTriples: 150})
	if err != nil {
		return err
	}
	if out.Hung && !out.Crashed {
		ctx.Label("no-result-within-bound-twice(C08)")
		return nil // termination is C08's statement; this property cannot judge a run without a result
	}
	if out.Crashed || out.Hung {
		return fmt.Errorf("the statement sequence crashed=%v hung=%v the process: %s\n statements: %v", out.Crashed, out.Hung, lastLines(out.Stderr, 10), stmtTexts(c))
	}
	pre := stateOf(c.Init)
	interesting := false
	for i, s := range c.Stmts {
		if where[i].stmt >= len(out.Resp.Results) {
			ctx.Label("history-truncated(data grew beyond the bound)")
			break
		}
		res := out.Resp.Results[where[i].stmt]
		text := s.text()
		if !res.Dumped {
			return fmt.Errorf("infrastructure: no state dump after %q (%s)", text, res.Err)
		}
		post := stateOf(res.State)
		desc := fmt.Sprintf("statement %d %q (stage %s, err %q)", i, text, res.Stage, res.Err)
		if res.Panic != "" {
			return fmt.Errorf("%s panicked: %s", desc, res.Panic)
		}
		switch {
		case res.Stage == "parse" || res.Stage == "plan":
			ctx.Label("rejected-before-execution")
			if err := unchangedExcept(pre, post, nil); err != nil {
				return fmt.Errorf("%s was rejected before execution but the store changed: %v", desc, err)
			}
			if len(pre) > 0 {
				for _, m := range pre {
					if len(m) > 0 {
						interesting = true
					}
				}
			}
		case s.Raw != "":
			return fmt.Errorf("%s: text with a missing token was accepted", desc)
		case s.Graph != nil:
			named := map[string]bool{}
			for _, g := range s.Graph.Graphs {
				named[g] = true
			}
			if err := unchangedExcept(pre, post, named); err != nil {
				return fmt.Errorf("%s changed something outside the named graphs: %v", desc, err)
			}
			if res.Stage == "ok" {
				for g := range named {
					_, had := pre[g]
					m, has := post[g]
					if s.Graph.Drop {
						if has {
							return fmt.Errorf("%s succeeded but graph %s still exists", desc, g)
						}
						if !had {
							return fmt.Errorf("%s succeeded although graph %s did not exist", desc, g)
						}
					} else {
						if !has || len(m) != 0 {
							return fmt.Errorf("%s succeeded but graph %s is missing or not empty: %v", desc, g, keysOf(m))
						}
						if had {
							return fmt.Errorf("%s succeeded although graph %s already existed", desc, g)
						}
					}
				}
				ctx.Label("graph-statement-ok")
			} else {
				ctx.Label("graph-statement-error")
			}
		case s.Data != nil:
			targets := map[string]bool{}
			for _, g := range s.Data.Graphs {
				targets[g] = true
			}
			if err := unchangedExcept(pre, post, targets); err != nil {
				return fmt.Errorf("%s changed a graph that is not a target: %v", desc, err)
			}
			allExist := true
			for g := range targets {
				if _, ok := pre[g]; !ok {
					allExist = false
				}
			}
			if res.Stage == "ok" {
				if !allExist {
					return fmt.Errorf("%s reports success although a target graph does not exist", desc)
				}
				overlap := false
				for g := range targets {
					want := map[string]model.TripleSpec{}
					for k, v := range pre[g] {
						want[k] = v
					}
					for _, tr := range s.Data.Triples {
						if _, in := pre[g][tr.Key()]; in {
							overlap = true
						}
						if s.Data.Delete {
							delete(want, tr.Key())
						} else {
							want[tr.Key()] = tr
						}
					}
					if !sameGraph(want, post[g]) {
						return fmt.Errorf("%s: graph %s is not its previous content %s the listed triples: %s", desc, g, map[bool]string{true: "minus", false: "plus"}[s.Data.Delete], diffGraph(want, post[g]))
					}
				}
				if overlap {
					interesting = true
				}
				ctx.Label("data-statement-ok")
			} else {
				if allExist {
					return fmt.Errorf("%s failed although every target graph exists", desc)
				}
				ctx.Label("data-statement-error(missing target)")
			}
		case s.Cons != nil:
			cc := s.Cons
			targets := map[string]bool{}
			for _, g := range cc.Into {
				targets[g] = true
			}
			missing := false
			for _, g := range append(append([]string{}, cc.From...), cc.Into...) {
				if _, ok := pre[g]; !ok {
					missing = true
				}
			}
			if missing {
				if res.Stage == "ok" {
					return fmt.Errorf("%s reports success although it names a graph that does not exist", desc)
				}
				if err := unchangedExcept(pre, post, nil); err != nil {
					return fmt.Errorf("%s names a missing graph, so it must leave every graph unchanged: %v", desc, err)
				}
				ctx.Label("construct-missing-graph")
				break
			}
			if err := unchangedExcept(pre, post, targets); err != nil {
				return fmt.Errorf("%s changed a graph that is not a target: %v", desc, err)
			}
			if where[i].sel < 0 {
				ctx.Label("construct-no-bindings")
				break
			}
			sel := out.Resp.Results[where[i].sel]
			if sel.Stage != "ok" || sel.Panic != "" {
				ctx.Label("construct-where-fails(C03)")
				break
			}
			rows := rowEnvs(sel)
			plain, groups, instOK := instantiate(cc, rows)
			if !instOK {
				ctx.Label("construct-runtime-kind-error")
				if res.Stage == "ok" {
					return fmt.Errorf("%s reports success although a solution row cannot instantiate the template (rows %v)", desc, rowKeys(sel))
				}
				break // runtime error after writes may have begun: no state requirement
			}
			if res.Stage != "ok" {
				return fmt.Errorf("%s failed although all %d solution rows instantiate the template", desc, len(rows))
			}
			// blank ids of the whole pre-state
			preIDs := map[string]bool{}
			for _, m := range pre {
				for _, tr := range m {
					if tr.S.Type == "/_" {
						preIDs[tr.S.ID] = true
					}
					if tr.O.N != nil && tr.O.N.Type == "/_" {
						preIDs[tr.O.N.ID] = true
					}
				}
			}
			var groupIDs []string
			for g := range targets {
				want := map[string]model.TripleSpec{}
				for k, v := range pre[g] {
					want[k] = v
				}
				for _, tr := range plain {
					if cc.De {
						delete(want, tr.Key())
					} else {
						want[tr.Key()] = tr
					}
				}
				// what is in the graph beyond the expected plain content must be exactly the blank-node groups
				extra := map[string][]model.TripleSpec{}
				for k, tr := range post[g] {
					if _, ok := want[k]; !ok {
						if tr.S.Type != "/_" || preIDs[tr.S.ID] {
							return fmt.Errorf("%s: graph %s holds an unexpected triple %s\n solution rows: %v", desc, g, k, rowKeys(sel))
						}
						extra[tr.S.ID] = append(extra[tr.S.ID], tr)
					}
				}
				for k := range want {
					if _, ok := post[g][k]; !ok {
						return fmt.Errorf("%s: graph %s misses the triple %s\n solution rows: %v", desc, g, k, rowKeys(sel))
					}
				}
				var gotSigs []string
				ids := []string{}
				for id, ts := range extra {
					var sig []string
					for _, tr := range ts {
						sig = append(sig, tr.P.Key()+" "+tr.O.Key())
					}
					sort.Strings(sig)
					gotSigs = append(gotSigs, strings.Join(sig, " ; "))
					ids = append(ids, id)
				}
				var wantSigs []string
				for _, gr := range groups {
					wantSigs = append(wantSigs, strings.Join(gr.sig, " ; "))
				}
				if !sameMultiset(wantSigs, gotSigs) {
					return fmt.Errorf("%s: the reification groups in graph %s are not one per solution row and ';' clause: %s\n solution rows: %v", desc, g, diffMultiset(wantSigs, gotSigs), rowKeys(sel))
				}
				sort.Strings(ids)
				groupIDs = append(groupIDs, strings.Join(ids, ","))
			}
			// every target graph received the same blank nodes; they occur in no other graph
			for _, x := range groupIDs {
				if x != groupIDs[0] {
					return fmt.Errorf("%s: target graphs received different blank nodes: %v", desc, groupIDs)
				}
			}
			if len(rows) >= 2 && (len(plain) > 0 || len(groups) > 0) {
				interesting = true
			}
			if len(groups) > 0 {
				ctx.Label("reification")
			}
			if cc.De {
				ctx.Label("deconstruct-ok")
			} else {
				ctx.Label("construct-ok")
			}
		}
		pre = post
	}
	if interesting {
		ctx.Nontrivial()
	}
	return nil
}

func stmtTexts(c c04Case) []string {
	var out []string
	for _, s := range c.Stmts {
		out = append(out, s.text())
	}
	return out
}

func TestC04(t *testing.T) {
	pbt.Run(t, "C04", "TestC04", genC04, checkC04)
}
