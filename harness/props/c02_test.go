package props

// C02 — every indexed lookup returns exactly what a scan of the graph would return.

import (
	"context"
	"fmt"
	"testing"

	"verif/harness/model"
	"verif/harness/pbt"

	"github.com/google/badwolf/storage"
	"github.com/google/badwolf/storage/memory"
	"github.com/google/badwolf/triple"
	"pgregory.net/rapid"
)

type c02Op struct {
	Rem   bool  `json:"rem,omitempty"`
	Batch []int `json:"batch"`
}

type c02Case struct {
	U   lookupUniverse `json:"u"`
	Ops []c02Op        `json:"ops"`
}

func genC02(t *rapid.T) c02Case {
	var c c02Case
	c.U = genLookupUniverse(t)
	n := rapid.IntRange(1, 25).Draw(t, "nops")
	for i := 0; i < n; i++ {
		c.Ops = append(c.Ops, c02Op{
			Rem:   rapid.IntRange(0, 2).Draw(t, "rem") == 0,
			Batch: rapid.SliceOfN(rapid.IntRange(0, len(c.U.Triples)-1), 1, 5).Draw(t, "batch"),
		})
	}
	return c
}

func modelList(set map[string]model.TripleSpec) []model.TripleSpec {
	out := make([]model.TripleSpec, 0, len(set))
	for _, t := range set {
		out = append(out, t)
	}
	return out
}

func checkC02(ctx *pbt.Ctx, c c02Case) error {
	bg := context.Background()
	st := memory.NewStore()
	g, err := st.NewGraph(bg, "?g")
	if err != nil {
		return err
	}
	real := make([]*triple.Triple, len(c.U.Triples))
	for i, s := range c.U.Triples {
		real[i] = s.MustTriple()
	}
	calls := c.U.allCalls()
	set := map[string]model.TripleSpec{}
	nontrivial := 0
	lookups := 0
	removedBuckets := false
	for i, op := range c.Ops {
		var batch []*triple.Triple
		for _, bi := range op.Batch {
			j := bi % len(real)
			batch = append(batch, real[j])
			if op.Rem {
				if _, ok := set[c.U.Triples[j].Key()]; ok {
					removedBuckets = true
				}
				delete(set, c.U.Triples[j].Key())
			} else {
				set[c.U.Triples[j].Key()] = c.U.Triples[j]
			}
		}
		if op.Rem {
			err = g.RemoveTriples(bg, batch)
		} else {
			err = g.AddTriples(bg, batch)
		}
		if err != nil {
			return fmt.Errorf("step %d: write failed: %v", i, err)
		}
		stored := modelList(set)
		for _, call := range calls {
			res := callLookup(g, call, storage.DefaultLookup)
			lookups++
			if res.Panicked != nil {
				return fmt.Errorf("step %d: %s panicked: %v", i, describeCall(call), res.Panicked)
			}
			if res.Err != nil {
				return fmt.Errorf("step %d: %s failed: %v", i, describeCall(call), res.Err)
			}
			if !res.Closed {
				return fmt.Errorf("step %d: %s returned without closing its channel", i, describeCall(call))
			}
			cands := refCandidates(stored, call)
			want := project(call, cands)
			if !sameMultiset(want, res.Keys) {
				return fmt.Errorf("step %d: %s differs from a scan of the graph: %s", i, describeCall(call), diffMultiset(want, res.Keys))
			}
			// non-trivial: the index bucket (same subject/object, same predicate ID) holds a
			// stored triple that must NOT be returned
			if call.P != nil && len(cands) < len(stored) {
				for _, t := range stored {
					if t.P.ID == call.P.ID && t.P.Key() != call.P.Key() &&
						(call.S == nil || call.S.Key() == t.S.Key()) && (call.O == nil || call.O.Key() == t.O.Key()) {
						nontrivial++
						break
					}
				}
			}
		}
	}
	pbt.AddExtra("TestC02", "lookups", lookups)
	pbt.AddExtra("TestC02", "lookups_with_decoy_in_bucket", nontrivial)
	if nontrivial > 0 || removedBuckets {
		ctx.Nontrivial()
	}
	if removedBuckets {
		ctx.Label("lookup-after-remove")
	}
	if nontrivial > 0 {
		ctx.Label("decoy-in-bucket")
	}
	return nil
}

func TestC02(t *testing.T) {
	pbt.Run(t, "C02", "TestC02", genC02, checkC02)
}
