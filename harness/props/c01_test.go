package props

// C01 — a store is a map from graph names to independent sets of triples.

import (
	"context"
	"fmt"
	"math"
	"sort"
	"strings"
	"testing"

	"verif/harness/gen"
	"verif/harness/model"
	"verif/harness/pbt"

	"github.com/google/badwolf/storage"
	"github.com/google/badwolf/storage/memory"
	"github.com/google/badwolf/triple"
	"pgregory.net/rapid"
)

var c01Names = []string{"?a", "?b", "", "?grüße"}

type c01Op struct {
	Op    string `json:"op"` // new get del names add rem
	G     int    `json:"g"`  // graph name index (new/get/del)
	H     int    `json:"h"`  // handle index (add/rem), modulo number of handles
	Batch []int  `json:"batch,omitempty"`
}

type c01Case struct {
	Universe []model.TripleSpec `json:"universe"`
	Ops      []c01Op            `json:"ops"`
}

// nearCollidingUniverse builds 6-10 triples from families that alias in a weak
// representation (same id immutable/temporal, same instant in two zones, 1 ns
// apart, literal look-alikes, node boundary, predicate-valued objects, big ints).
func nearCollidingUniverse(t *rapid.T, n int) []model.TripleSpec {
	s1 := model.NodeSpec{Type: "/a", ID: "bc"}
	s2 := model.NodeSpec{Type: "/a/b", ID: "c"}
	s3 := model.NodeSpec{Type: "/ab", ID: "c"} // collides with s1 under KF-C06-NODE-BOUNDARY: filtered below while that finding is open
	s4 := model.NodeSpec{Type: "/a", ID: "c"}  // same id as s2 under its parent type (covariant types)
	base := int64(1136214245)
	pi := model.PredSpec{ID: "p"}
	pt := model.PredSpec{ID: "p", Anchor: tsp(base, 0, 0)}
	ptz := model.PredSpec{ID: "p", Anchor: tsp(base, 0, 3600)} // SAME triple as pt
	pt1 := model.PredSpec{ID: "p", Anchor: tsp(base, 1, 0)}
	q := model.PredSpec{ID: "q"}
	objs := []model.ObjSpec{
		{L: &model.LitSpec{Kind: "bool", B: true}},
		{L: &model.LitSpec{Kind: "text", S: "true"}},
		{L: &model.LitSpec{Kind: "blob", Blob: []byte("true")}},
		{L: &model.LitSpec{Kind: "int64", I: 1}},
		{L: &model.LitSpec{Kind: "float64", F: 0x3ff0000000000000}},
		{L: &model.LitSpec{Kind: "text", S: "1"}},
		{L: &model.LitSpec{Kind: "int64", I: 1 << 55}},
		{L: &model.LitSpec{Kind: "int64", I: -(1 << 62)}},
		{N: &s1}, {N: &s2}, {N: &s3}, {N: &s4},
		{P: &pi}, {P: &pt}, {P: &ptz},
	}
	// int64 values that agree in their low or in their high varint bytes
	for _, i := range []int64{1 << 56, 1 << 62, 3 << 55, -(1 << 55), 1<<55 + 1, 1<<56 + 1, math.MaxInt64, math.MinInt64, 2, 257} {
		objs = append(objs, model.ObjSpec{L: &model.LitSpec{Kind: "int64", I: i}})
	}
	subj := []model.NodeSpec{s1, s2, s3, s4}
	preds := []model.PredSpec{pi, pt, ptz, pt1, q}
	var u []model.TripleSpec
	for len(u) < n {
		switch k := rapid.IntRange(0, 9).Draw(t, "free"); {
		case k == 0:
			u = append(u, gen.Triple(false).Draw(t, "free-triple"))
			continue
		case k <= 4 && len(u) > 0:
			// a sibling of an earlier member: two components kept, the third from the same family
			sib := u[rapid.IntRange(0, len(u)-1).Draw(t, "sib-of")]
			switch rapid.IntRange(0, 3).Draw(t, "sib-part") {
			case 0:
				sib.S = rapid.SampledFrom(subj).Draw(t, "s")
			case 1:
				sib.P = rapid.SampledFrom(preds).Draw(t, "p")
			default:
				o := rapid.SampledFrom(objs).Draw(t, "o")
				if sib.O.L != nil && sib.O.L.Kind == "int64" {
					o = rapid.SampledFrom(objs[len(objs)-12:]).Draw(t, "oi") // another big int
				}
				sib.O = o
			}
			u = append(u, sib)
			continue
		}
		u = append(u, model.TripleSpec{
			S: rapid.SampledFrom(subj).Draw(t, "s"),
			P: rapid.SampledFrom(preds).Draw(t, "p"),
			O: rapid.SampledFrom(objs).Draw(t, "o"),
		})
	}
	return u
}

// dropKnownCollisions removes universe members that collide (by an OPEN C06
// finding) with an earlier member of a different key; returns the kept list and
// the ids of the findings that caused removals.
func dropKnownCollisions(u []model.TripleSpec) ([]model.TripleSpec, []string) {
	var kept []model.TripleSpec
	var why []string
	for _, t := range u {
		ok := true
		// -0.0 and NaN are kept out of store universes (DESIGN §2.5)
		if t.O.L != nil && t.O.L.Kind == "float64" && (t.O.L.F == 1<<63 || t.O.L.IsNaN()) {
			continue
		}
		for _, k := range kept {
			if k.Key() == t.Key() {
				continue
			}
			a, b := k, t
			ids := knownCollision(anySpec{T: &a}, anySpec{T: &b})
			if len(ids) > 0 {
				open := true
				for _, id := range ids {
					open = open && pbt.FindingOpen(id)
				}
				if open {
					ok = false
					why = append(why, ids...)
					break
				}
			}
		}
		if ok {
			kept = append(kept, t)
		}
	}
	return kept, why
}

func genC01(t *rapid.T) c01Case {
	var c c01Case
	c.Universe = nearCollidingUniverse(t, rapid.IntRange(6, 10).Draw(t, "usize"))
	nops := rapid.IntRange(1, 40).Draw(t, "nops")
	for i := 0; i < nops; i++ {
		var op c01Op
		switch rapid.IntRange(0, 19).Draw(t, "opk") {
		case 0, 1, 2:
			op.Op = "new"
		case 3:
			op.Op = "get"
		case 4, 5:
			op.Op = "del"
		case 6:
			op.Op = "names"
		case 7, 8, 9, 10, 11, 12, 13:
			op.Op = "add"
		default:
			op.Op = "rem"
		}
		op.G = rapid.IntRange(0, len(c01Names)-1).Draw(t, "g")
		op.H = rapid.IntRange(0, 7).Draw(t, "h")
		if op.Op == "add" || op.Op == "rem" {
			op.Batch = rapid.SliceOfN(rapid.IntRange(0, len(c.Universe)-1), 0, 6).Draw(t, "batch")
		}
		c.Ops = append(c.Ops, op)
	}
	return c
}

type c01Handle struct {
	g    storage.Graph
	name string
	gen  int // generation id of the graph object
}

func graphNames(st storage.Store) ([]string, error) {
	ch := make(chan string, 64)
	err := st.GraphNames(context.Background(), ch)
	var out []string
	for {
		select {
		case n, ok := <-ch:
			if !ok {
				sort.Strings(out)
				return out, err
			}
			out = append(out, n)
		default:
			return out, fmt.Errorf("GraphNames returned without closing its channel (err=%v)", err)
		}
	}
}

func checkC01(ctx *pbt.Ctx, c c01Case) error {
	bg := context.Background()
	uni, why := dropKnownCollisions(c.Universe)
	for _, id := range why {
		ctx.Excluded(id)
	}
	if len(uni) == 0 {
		return nil
	}
	real := make([]*triple.Triple, len(uni))
	for i, s := range uni {
		real[i] = s.MustTriple()
	}
	st := memory.NewStore()
	nameGen := map[string]int{}       // live name -> generation
	sets := map[int]map[string]bool{} // generation -> set of keys
	var handles []c01Handle
	nextGen := 0
	removedAfterAdd, readd, twoAlive := false, false, false
	everAdded := map[string]bool{}
	everRemoved := map[string]bool{}

	verify := func(step int, what string) error {
		names, err := graphNames(st)
		if err != nil {
			return fmt.Errorf("step %d (%s): GraphNames: %v", step, what, err)
		}
		var want []string
		for n := range nameGen {
			want = append(want, n)
		}
		sort.Strings(want)
		if strings.Join(names, "\x00") != strings.Join(want, "\x00") {
			return fmt.Errorf("step %d (%s): GraphNames = %q, model has %q", step, what, names, want)
		}
		if len(want) >= 2 {
			twoAlive = true
		}
		check := func(g storage.Graph, set map[string]bool, who string) error {
			got, err := listGraph(g)
			if err != nil {
				return fmt.Errorf("step %d (%s): Triples(%s): %v", step, what, who, err)
			}
			var ws []string
			for k := range set {
				ws = append(ws, k)
			}
			if !sameMultiset(ws, got) {
				return fmt.Errorf("step %d (%s): listing of %s differs from the model: %s", step, what, who, diffMultiset(ws, got))
			}
			for i, s := range uni {
				ex, err := g.Exist(bg, real[i])
				if err != nil {
					return fmt.Errorf("step %d (%s): Exist(%s): %v", step, what, who, err)
				}
				if ex != set[s.Key()] {
					return fmt.Errorf("step %d (%s): Exist(%s) in %s = %v, model says %v", step, what, s.Key(), who, ex, set[s.Key()])
				}
			}
			return nil
		}
		for n, gnr := range nameGen {
			g, err := st.Graph(bg, n)
			if err != nil {
				return fmt.Errorf("step %d (%s): Graph(%q) fails for a live graph: %v", step, what, n, err)
			}
			if id := g.ID(bg); id != n {
				return fmt.Errorf("step %d (%s): Graph(%q).ID() = %q", step, what, n, id)
			}
			if err := check(g, sets[gnr], fmt.Sprintf("graph %q", n)); err != nil {
				return err
			}
		}
		// every handle ever obtained (also of dropped graphs) still denotes its own generation
		for i, h := range handles {
			if err := check(h.g, sets[h.gen], fmt.Sprintf("handle #%d of %q (generation %d)", i, h.name, h.gen)); err != nil {
				return err
			}
		}
		return nil
	}

	for i, op := range c.Ops {
		name := c01Names[op.G%len(c01Names)]
		what := op.Op
		switch op.Op {
		case "new":
			what = fmt.Sprintf("NewGraph(%q)", name)
			g, err := st.NewGraph(bg, name)
			_, exists := nameGen[name]
			if exists != (err != nil) {
				return fmt.Errorf("step %d: %s err=%v but graph exists=%v", i, what, err, exists)
			}
			if err == nil {
				if g == nil {
					return fmt.Errorf("step %d: %s returned (nil, nil)", i, what)
				}
				nextGen++
				nameGen[name] = nextGen
				sets[nextGen] = map[string]bool{}
				handles = append(handles, c01Handle{g, name, nextGen})
			}
		case "get":
			what = fmt.Sprintf("Graph(%q)", name)
			g, err := st.Graph(bg, name)
			gnr, exists := nameGen[name]
			if exists != (err == nil) {
				return fmt.Errorf("step %d: %s err=%v but graph exists=%v", i, what, err, exists)
			}
			if err == nil {
				handles = append(handles, c01Handle{g, name, gnr})
			}
		case "del":
			what = fmt.Sprintf("DeleteGraph(%q)", name)
			err := st.DeleteGraph(bg, name)
			_, exists := nameGen[name]
			if exists != (err == nil) {
				return fmt.Errorf("step %d: %s err=%v but graph exists=%v", i, what, err, exists)
			}
			delete(nameGen, name)
		case "names":
			what = "GraphNames"
		case "add", "rem":
			if len(handles) == 0 {
				continue
			}
			h := handles[op.H%len(handles)]
			var batch []*triple.Triple
			var keys []string
			for _, bi := range op.Batch {
				j := bi % len(uni)
				batch = append(batch, real[j])
				keys = append(keys, uni[j].Key())
			}
			what = fmt.Sprintf("%s via handle of %q gen %d batch %v", op.Op, h.name, h.gen, keys)
			var err error
			if op.Op == "add" {
				err = h.g.AddTriples(bg, batch)
				for _, k := range keys {
					if everRemoved[fmt.Sprint(h.gen, k)] {
						readd = true
					}
					everAdded[fmt.Sprint(h.gen, k)] = true
					sets[h.gen][k] = true
				}
			} else {
				err = h.g.RemoveTriples(bg, batch)
				for _, k := range keys {
					if sets[h.gen][k] {
						removedAfterAdd = true
						everRemoved[fmt.Sprint(h.gen, k)] = true
					}
					delete(sets[h.gen], k)
				}
			}
			if err != nil {
				return fmt.Errorf("step %d: %s failed: %v", i, what, err)
			}
		}
		if err := verify(i, what); err != nil {
			return err
		}
	}
	if removedAfterAdd && readd && twoAlive {
		ctx.Nontrivial()
	}
	if removedAfterAdd {
		ctx.Label("remove-after-add")
	}
	if readd {
		ctx.Label("re-add")
	}
	if twoAlive {
		ctx.Label("two-graphs-alive")
	}
	return nil
}

func TestC01(t *testing.T) {
	pbt.Run(t, "C01", "TestC01", genC01, checkC01)
}

// ---- small-scope exhaustive: every reachable set × every single operation ----

type c01ExhCase struct {
	Universe []model.TripleSpec `json:"universe"` // 4 triples
}

func genC01Exh(t *rapid.T) c01ExhCase {
	return c01ExhCase{Universe: nearCollidingUniverse(t, 4)}
}

func checkC01Exh(ctx *pbt.Ctx, c c01ExhCase) error {
	bg := context.Background()
	uni, why := dropKnownCollisions(c.Universe)
	for _, id := range why {
		ctx.Excluded(id)
	}
	// distinct keys only (the same instant in two zones is ONE triple)
	{
		seen := map[string]bool{}
		var d []model.TripleSpec
		for _, s := range uni {
			if !seen[s.Key()] {
				seen[s.Key()] = true
				d = append(d, s)
			}
		}
		uni = d
	}
	n := len(uni)
	if n == 0 {
		return nil
	}
	real := make([]*triple.Triple, n)
	for i, s := range uni {
		real[i] = s.MustTriple()
	}
	subset := func(mask int) ([]*triple.Triple, map[string]bool) {
		var ts []*triple.Triple
		set := map[string]bool{}
		for i := 0; i < n; i++ {
			if mask&(1<<i) != 0 {
				ts = append(ts, real[i])
				set[uni[i].Key()] = true
			}
		}
		return ts, set
	}
	transitions := 0
	st := memory.NewStore()
	g, err := st.NewGraph(bg, "?g")
	if err != nil {
		return err
	}
	other, _ := st.NewGraph(bg, "?other")
	all, _ := subset(1<<n - 1)
	other.AddTriples(bg, all)
	for state := 0; state < 1<<n; state++ {
		for route := 0; route < 2; route++ {
			for opk := 0; opk < 2; opk++ {
				for batch := 0; batch < 1<<n; batch++ {
					// fresh state: the graph object is reused (allocation of a memory graph is
					// expensive); it is emptied and verified empty first
					g.RemoveTriples(bg, all)
					if left, _ := listGraph(g); len(left) != 0 {
						return fmt.Errorf("RemoveTriples(all) left %v", left)
					}
					sts, sset := subset(state)
					if route == 0 {
						g.AddTriples(bg, sts)
					} else { // reach the same set by adding everything and removing the complement
						g.AddTriples(bg, all)
						comp, _ := subset((1<<n - 1) &^ state)
						g.RemoveTriples(bg, comp)
					}
					bts, bset := subset(batch)
					want := map[string]bool{}
					for k := range sset {
						want[k] = true
					}
					var opErr error
					if opk == 0 {
						opErr = g.AddTriples(bg, bts)
						for k := range bset {
							want[k] = true
						}
					} else {
						opErr = g.RemoveTriples(bg, bts)
						for k := range bset {
							delete(want, k)
						}
					}
					if opErr != nil {
						return fmt.Errorf("operation failed: %v", opErr)
					}
					transitions++
					got, err := listGraph(g)
					if err != nil {
						return err
					}
					var ws []string
					for k := range want {
						ws = append(ws, k)
					}
					desc := fmt.Sprintf("state %04b (route %d) op %d batch %04b", state, route, opk, batch)
					if !sameMultiset(ws, got) {
						return fmt.Errorf("%s: listing differs: %s", desc, diffMultiset(ws, got))
					}
					for i := range uni {
						ex, _ := g.Exist(bg, real[i])
						if ex != want[uni[i].Key()] {
							return fmt.Errorf("%s: Exist(%s)=%v, want %v", desc, uni[i].Key(), ex, want[uni[i].Key()])
						}
					}
					og, _ := listGraph(other)
					distinct := map[string]bool{}
					for _, s := range uni {
						distinct[s.Key()] = true
					}
					if len(og) != len(distinct) {
						return fmt.Errorf("%s: the other graph changed: %v", desc, og)
					}
				}
			}
		}
	}
	pbt.AddExtra("TestC01Exh", "transitions", transitions)
	ctx.Nontrivial()
	return nil
}

func TestC01Exh(t *testing.T) {
	pbt.Run(t, "C01", "TestC01Exh", genC01Exh, checkC01Exh)
}
