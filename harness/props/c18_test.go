package props

// C18 — the parser accepts exactly whole grammar statements and keeps no state.

import (
	"fmt"
	"strings"
	"testing"

	"verif/harness/gram"
	"verif/harness/model"
	"verif/harness/pbt"

	"github.com/google/badwolf/bql/grammar"
	"github.com/google/badwolf/bql/lexer"
	"github.com/google/badwolf/bql/semantic"
	"pgregory.net/rapid"
)

type c18Case struct {
	Kinds []int  `json:"kinds"`
	Src   string `json:"src,omitempty"`
}

func toKinds(k []int) []lexer.TokenType {
	out := make([]lexer.TokenType, len(k))
	for i, x := range k {
		out[i] = lexer.TokenType(x)
	}
	return out
}

func fromKinds(k []lexer.TokenType) []int {
	out := make([]int, len(k))
	for i, x := range k {
		out[i] = int(x)
	}
	return out
}

var (
	c18Table  gram.Table
	c18Min    map[string]int
	c18Plain  *grammar.Grammar
	c18Parser *grammar.Parser
)

func c18Init() {
	if c18Table == nil {
		c18Plain = grammar.BQL()
		c18Table = gram.FromGrammar(c18Plain)
		c18Min = c18Table.MinLengths()
		c18Parser, _ = grammar.NewParser(c18Plain)
	}
}

func safeParse(p *grammar.Parser, text string, st *semantic.Statement) (err error, pan interface{}) {
	defer func() {
		if r := recover(); r != nil {
			pan = r
		}
	}()
	return p.Parse(grammar.NewLLk(text, 1), st), nil
}

// checkC18 is the accept/reject differential on one token-kind sequence.
func checkC18(ctx *pbt.Ctx, c c18Case) error {
	c18Init()
	if c.Src != "" {
		ctx.Label("src:" + c.Src)
	}
	kinds := toKinds(c.Kinds)
	text := gram.Concretise(kinds)
	back, clean := gram.Kinds(text)
	if !clean || !gram.SameKinds(back, kinds) {
		ctx.Label("unrealisable")
		return nil
	}
	err, pan := safeParse(c18Parser, text, &semantic.Statement{})
	if pan != nil {
		return fmt.Errorf("parser (hook-free grammar) panicked on %q: %v", text, pan)
	}
	accepted := err == nil
	derivable := c18Table.Derives("START", kinds)
	greedy := c18Table.GreedyAccepts(kinds)
	if greedy && !derivable {
		return fmt.Errorf("harness inconsistency: greedy recogniser accepts a non-derivable sequence [%s]", gram.KindNames(kinds))
	}
	if accepted && !derivable {
		return fmt.Errorf("parser accepts %q although its complete token sequence [%s] is not a statement of the grammar", text, gram.KindNames(kinds))
	}
	if accepted != greedy {
		return fmt.Errorf("parser accepted=%v but the greedy predictive reading of the grammar says %v for %q [%s] (derivable=%v, parser error: %v)", accepted, greedy, text, gram.KindNames(kinds), derivable, err)
	}
	// (c) the semantic layer never accepts more
	sp, perr := grammar.NewParser(grammar.SemanticBQL())
	if perr != nil {
		return fmt.Errorf("NewParser(SemanticBQL()): %v", perr)
	}
	serr, span := safeParse(sp, text, &semantic.Statement{})
	if span != nil {
		// crashes of hooks on odd text are C08's subject; not an acceptance
		ctx.Label("semantic-hook-panic(C08)")
	} else if serr == nil && !accepted {
		return fmt.Errorf("SemanticBQL accepts %q which the plain grammar rejects (%v)", text, err)
	}
	if accepted {
		ctx.Label("accepted")
		if serr == nil && span == nil {
			ctx.Label("semantic-accepted")
		}
	}
	if len(kinds) >= 4 && (accepted || c.Src == "mutated" || c.Src == "trailing") {
		ctx.Nontrivial()
	}
	return nil
}

func genC18(t *rapid.T) c18Case {
	c18Init()
	ch := func(n int, label string) int { return rapid.IntRange(0, n-1).Draw(t, label) }
	kinds := c18Table.RandomSentence("START", 0, rapid.IntRange(2, 7).Draw(t, "depth"), c18Min, ch, nil)
	all := gram.AllKinds()
	switch rapid.IntRange(0, 9).Draw(t, "mode") {
	case 0, 1, 2:
		return c18Case{Kinds: fromKinds(kinds), Src: "derivation"}
	case 3:
		n := rapid.IntRange(1, 3).Draw(t, "ntrail")
		for i := 0; i < n; i++ {
			kinds = append(kinds, rapid.SampledFrom(all).Draw(t, "trail"))
		}
		return c18Case{Kinds: fromKinds(kinds), Src: "trailing"}
	case 4:
		// two statements back to back
		k2 := c18Table.RandomSentence("START", 0, 3, c18Min, ch, nil)
		return c18Case{Kinds: fromKinds(append(kinds, k2...)), Src: "trailing"}
	default:
		if len(kinds) == 0 {
			return c18Case{Kinds: nil, Src: "mutated"}
		}
		i := rapid.IntRange(0, len(kinds)-1).Draw(t, "pos")
		m := append([]lexer.TokenType{}, kinds...)
		switch rapid.IntRange(0, 4).Draw(t, "mut") {
		case 0: // delete
			m = append(m[:i], m[i+1:]...)
		case 1: // duplicate
			m = append(m[:i+1], m[i:]...)
		case 2: // replace
			m[i] = rapid.SampledFrom(all).Draw(t, "repl")
		case 3: // insert
			m = append(m[:i], append([]lexer.TokenType{rapid.SampledFrom(all).Draw(t, "ins")}, m[i:]...)...)
		default: // truncate
			m = m[:i]
		}
		return c18Case{Kinds: fromKinds(m), Src: "mutated"}
	}
}

func TestC18(t *testing.T) {
	pbt.Run(t, "C18", "TestC18", genC18, checkC18)
}

// TestC18Exh: all token sequences up to length 3 (thorough: 4) over the full alphabet.
func TestC18Exh(t *testing.T) {
	if pbt.ReplayPath() != "" {
		pbt.Run(t, "C18", "TestC18Exh", func(*rapid.T) c18Case { return c18Case{} }, checkC18)
		return
	}
	c18Init()
	shard, nsh := pbt.Shard()
	maxLen := 3
	if pbt.Thorough() {
		maxLen = 4
	}
	all := gram.AllKinds()
	idx := 0
	var rec func(prefix []int, depth int)
	rec = func(prefix []int, depth int) {
		idx++
		if idx%nsh == shard {
			pbt.Eval(t, "C18", "TestC18Exh", c18Case{Kinds: append([]int{}, prefix...), Src: "exhaustive"}, checkC18Exh)
		}
		if depth == maxLen {
			return
		}
		for _, k := range all {
			rec(append(prefix, int(k)), depth+1)
		}
	}
	rec(nil, 0)
	pbt.SetExhaustive("TestC18Exh")
	pbt.SetExtra("TestC18Exh", "max_len", maxLen)
	pbt.SetExtra("TestC18Exh", "alphabet", len(all))
}

// TestC18Long: for every loop of the grammar (an alternative through which a rule derives
// itself: list continuations, nested parentheses, ...) the statement that goes n times round
// that loop, for several n up to thousands: "accepts every derivable statement" has no length
// limit, and list productions are right-recursive, so the derivation depth grows with the list.
func TestC18Long(t *testing.T) {
	if pbt.ReplayPath() != "" {
		pbt.Run(t, "C18", "TestC18Long", func(*rapid.T) c18Case { return c18Case{} }, checkC18Long)
		return
	}
	c18Init()
	shard, nsh := pbt.Shard()
	rounds := []int{1, 2, 40, 700, 2500}
	if pbt.Thorough() {
		rounds = append(rounds, 300, 1100, 6000)
	}
	chains := c18Table.Chains(c18Min)
	loops := c18Table.Loops(c18Min)
	idx := 0
	for _, l := range loops {
		ch, ok := chains[l.Rule]
		if !ok && l.Rule != "START" {
			continue
		}
		for _, n := range rounds {
			idx++
			if idx%nsh != shard {
				continue
			}
			kinds := c18Table.Pumped(ch, l, n, c18Min)
			pbt.Eval(t, "C18", "TestC18Long", c18Case{Kinds: fromKinds(kinds), Src: fmt.Sprintf("loop %s/%d x%d", l.Rule, l.Alt, n)}, checkC18Long)
		}
	}
	pbt.SetExtra("TestC18Long", "loops", len(loops))
	pbt.SetExtra("TestC18Long", "rounds", rounds)
}

func checkC18Long(ctx *pbt.Ctx, c c18Case) error {
	src := c.Src
	c.Src = "long"
	if err := checkC18(ctx, c); err != nil {
		return fmt.Errorf("%s (%d tokens): %v", src, len(c.Kinds), truncErr(err, 600))
	}
	if len(c.Kinds) >= 100 {
		ctx.Label("tokens>=100")
	}
	if len(c.Kinds) >= 4000 {
		ctx.Label("tokens>=4000")
	}
	ctx.Nontrivial()
	return nil
}

func truncErr(err error, n int) string {
	s := err.Error()
	if len(s) > n {
		return s[:n/2] + " ... " + s[len(s)-n/2:]
	}
	return s
}

// exhaustive variant: realisable sequences are non-trivial (they exercise the parser)
func checkC18Exh(ctx *pbt.Ctx, c c18Case) error {
	c.Src = ""
	if err := checkC18(ctx, c); err != nil {
		return err
	}
	if len(c.Kinds) >= 2 {
		kinds := toKinds(c.Kinds)
		if back, clean := gram.Kinds(gram.Concretise(kinds)); clean && gram.SameKinds(back, kinds) {
			ctx.Nontrivial() // realisable sequence of >= 2 tokens: the parser really ran on it
		}
	}
	return nil
}

// ---- (d) no state between statements ----

var c18Pool = []string{
	"select ?s, ?p, ?o from ?g where {?s ?p ?o};",
	"select ?s as ?x, ?o from ?a, ?b where {?s \"p\"@[] ?o . ?o \"q\"@[2006-01-02T15:04:05Z] ?z};",
	"select ?s, count(distinct ?o) as ?n from ?g where {?s \"p\"@[] ?o} group by ?s order by ?n desc having ?n > \"1\"^^type:int64 limit \"10\"^^type:int64;",
	"select ?s, sum(?o) as ?n from ?g where {?s \"p\"@[] ?o} group by ?s;",
	"select ?s from ?g where {?s \"p\"@[?t] ?o at ?t2 . optional {?s ?p ?o}} before 2006-01-02T15:04:05Z;",
	"select ?s from ?g where {?s \"p\"@[?t] ?o} after 2006-01-02T15:04:05Z;",
	"select ?s from ?g where {?s \"p\"@[?t] ?o} between 2006-01-02T15:04:05Z, 2007-01-02T15:04:05Z;",
	"select ?a, ?ty, ?i, ?pp, ?pi, ?pt from ?g where {/u<a> as ?a type ?ty id ?i \"p\"@[,2006-01-02T15:04:05Z] as ?pp id ?pi at ?pt ?o};",
	"select ?o, ?ot from ?g where {?s ?p ?o as ?oo type ?ot id ?oi . ?s \"p\"@[2006-01-02T15:04:05Z] \"q\"@[?x] as ?qq id ?qi at ?qt};",
	"select ?s from ?g where {?s ?p ?o . filter latest(?p)};",
	"select ?s, ?o from ?g where {?s ?p ?o} order by ?s asc, ?o desc;",
	"select ?s from ?g where {?s ?p ?o} having (?s = /u<a>) or (not ?o < \"3\"^^type:int64);",
	"insert data into ?a, ?b {/u<a> \"p\"@[] /u<b> . /u<a> \"p\"@[2006-01-02T15:04:05Z] \"1\"^^type:int64};",
	"insert data into ?a {/u<c> \"q\"@[] \"r\"@[]};",
	"delete data from ?a {/u<a> \"p\"@[] \"q\"@[] . /u<b> \"p\"@[] \"x\"^^type:text};",
	"create graph ?a, ?b;", "drop graph ?a;", "show graphs;",
	"construct {?s \"p\"@[?t] ?o ; \"q\"@[] ?o . _:v \"r\"@[] ?s} into ?b from ?a where {?s \"p\"@[?t] ?o};",
	"construct {?s ?p ?o} into ?b, ?c from ?a where {?s ?p ?o} having ?s = /u<a>;",
	"deconstruct {?s \"p\"@[] ?o} in ?b from ?a where {?s \"p\"@[] ?o};",
	// semantically invalid
	"select ?zz from ?g where {?s ?p ?o};",
	"select ?s from ?g where {?s ?p ?o} group by ?o;",
	"select ?s from ?g where {?s ?p ?o} order by ?q;",
	"select ?s from ?g where {?s \"p\"@[2007-01-02T15:04:05Z,2006-01-02T15:04:05Z] ?o};",
	"insert data into ?a {/u<a> \"p\"@[] \"1\"^^type:int32};",
	"select ?s from ?g where {?s ?p ?o} limit \"1.5\"^^type:float64;",
}

// c18ValidPool is the number of leading pool statements that are valid BQL.
var c18ValidPool = func() int {
	for i, s := range c18Pool {
		if s == "select ?zz from ?g where {?s ?p ?o};" {
			return i
		}
	}
	return 0
}()

type c18Seq struct {
	Stmts []string `json:"stmts"`
}

func tokenSpans(text string) [][2]int {
	var toks []tok
	for t := range lexer.New(text, 8) {
		toks = append(toks, tok{int(t.Type), t.Text})
	}
	return spans(text, toks)
}

func genC18Seq(t *rapid.T) c18Seq {
	n := rapid.IntRange(2, 5).Draw(t, "n")
	var c c18Seq
	glist := func(label string) string {
		// a graph list of 1-5 names over four graphs, repeats allowed
		k := rapid.IntRange(1, 5).Draw(t, label+"n")
		var gs []string
		for j := 0; j < k; j++ {
			gs = append(gs, rapid.SampledFrom([]string{"?a", "?b", "?c", "?d"}).Draw(t, label))
		}
		return strings.Join(gs, ", ")
	}
	for i := 0; i < n; i++ {
		s := rapid.SampledFrom(c18Pool).Draw(t, "stmt")
		if rapid.IntRange(0, 4).Draw(t, "glist?") == 0 {
			switch rapid.IntRange(0, 4).Draw(t, "gkind") {
			case 0:
				s = "create graph " + glist("cg") + ";"
			case 1:
				s = "drop graph " + glist("dg") + ";"
			case 2:
				s = "select ?s from " + glist("sg") + " where {?s ?p ?o};"
			case 3:
				s = "insert data into " + glist("ig") + " {/u<a> \"p\"@[] /u<b>};"
			default:
				s = "construct {?s \"p\"@[] ?o} into " + glist("og") + " from " + glist("fg") + " where {?s \"p\"@[] ?o};"
			}
		}
		switch rapid.IntRange(0, 9).Draw(t, "form") {
		case 0, 1, 2, 3: // truncated at a token boundary
			sp := tokenSpans(s)
			if len(sp) > 2 {
				k := rapid.IntRange(1, len(sp)-2).Draw(t, "cut")
				s = s[:sp[k][0]]
			}
		case 4: // a token deleted
			sp := tokenSpans(s)
			if len(sp) > 2 {
				k := rapid.IntRange(0, len(sp)-2).Draw(t, "del")
				s = s[:sp[k][0]] + s[sp[k][1]:]
			}
		}
		c.Stmts = append(c.Stmts, s)
	}
	return c
}

func meaningOf(st *semantic.Statement) (m string, pan interface{}) {
	defer func() {
		if r := recover(); r != nil {
			pan = r
		}
	}()
	var sb strings.Builder
	fmt.Fprintf(&sb, "type=%v graphs=%q in=%q out=%q\n", st.Type(), st.GraphNames(), st.InputGraphNames(), st.OutputGraphNames())
	for _, d := range st.Data() {
		fmt.Fprintf(&sb, "data %s\n", model.KeyTriple(d))
	}
	for _, c := range st.GraphPatternClauses() {
		fmt.Fprintf(&sb, "clause opt=%v S=%s SB=%q SA=%q ST=%q SI=%q | P=%s PID=%q PB=%q PA=%q PI=%q PAB=%q PAA=%q PL=%s PU=%s PLA=%q PUA=%q PT=%v | O=%s OB=%q OA=%q OID=%q OT=%q OI=%q OAB=%q OAA=%q OL=%s OU=%s OLA=%q OUA=%q OTm=%v\n",
			c.Optional, nodeKeyOrNil(c), c.SBinding, c.SAlias, c.STypeAlias, c.SIDAlias,
			predKeyOrNil(c), c.PID, c.PBinding, c.PAlias, c.PIDAlias, c.PAnchorBinding, c.PAnchorAlias, timeKey(c.PLowerBound), timeKey(c.PUpperBound), c.PLowerBoundAlias, c.PUpperBoundAlias, c.PTemporal,
			objKeyOrNil(c), c.OBinding, c.OAlias, c.OID, c.OTypeAlias, c.OIDAlias, c.OAnchorBinding, c.OAnchorAlias, timeKey(c.OLowerBound), timeKey(c.OUpperBound), c.OLowerBoundAlias, c.OUpperBoundAlias, c.OTemporal)
	}
	for _, f := range st.FilterClauses() {
		fmt.Fprintf(&sb, "filter %v %q %q\n", f.Operation, f.Binding, f.Value)
	}
	for _, p := range st.Projections() {
		fmt.Fprintf(&sb, "proj %q as %q op=%v mod=%v\n", p.Binding, p.Alias, p.OP, p.Modifier)
	}
	fmt.Fprintf(&sb, "groupby %q\n", st.GroupBy())
	ob := st.OrderBy()
	dup := map[string]bool{}
	hasDup := false
	for _, o := range ob {
		if dup[o.Binding] {
			hasDup = true
		}
		dup[o.Binding] = true
	}
	if !hasDup && len(dup) == len(ob) {
		// (repeated ORDER BY keys are rebuilt from a map even by a fresh parser: C12/C14)
		fmt.Fprintf(&sb, "orderby %v\n", ob)
	}
	for _, h := range st.HavingExpression() {
		if h.IsSymbol() {
			fmt.Fprintf(&sb, "having sym %v\n", h.Symbol())
		} else {
			fmt.Fprintf(&sb, "having tok %v %q\n", h.Token().Type, h.Token().Text)
		}
	}
	lo := st.GlobalLookupOptions()
	fmt.Fprintf(&sb, "lookup max=%d lower=%s upper=%s\n", lo.MaxElements, timeKey(lo.LowerAnchor), timeKey(lo.UpperAnchor))
	fmt.Fprintf(&sb, "limit set=%v %d\n", st.IsLimitSet(), st.Limit())
	for _, cc := range st.ConstructClauses() {
		fmt.Fprintf(&sb, "construct S=%s SB=%q\n", model.KeyNode(cc.S), cc.SBinding)
		for _, po := range cc.PredicateObjectPairs() {
			fmt.Fprintf(&sb, "  pair P=%s PB=%q PID=%q PAB=%q PT=%v O=%s OB=%q OID=%q OAB=%q OT=%v\n", model.KeyPred(po.P), po.PBinding, po.PID, po.PAnchorBinding, po.PTemporal,
				model.KeyObj(po.O), po.OBinding, po.OID, po.OAnchorBinding, po.OTemporal)
		}
	}
	return sb.String(), nil
}

func nodeKeyOrNil(c *semantic.GraphClause) string { return model.KeyNode(c.S) }
func predKeyOrNil(c *semantic.GraphClause) string { return model.KeyPred(c.P) }
func objKeyOrNil(c *semantic.GraphClause) string  { return model.KeyObj(c.O) }

func checkC18Seq(ctx *pbt.Ctx, c c18Seq) error {
	shared, err := grammar.NewParser(grammar.SemanticBQL())
	if err != nil {
		return err
	}
	rejectedBefore := false
	interesting := false
	for i, s := range c.Stmts {
		fresh, _ := grammar.NewParser(grammar.SemanticBQL())
		fst := &semantic.Statement{}
		ferr, fpan := safeParse(fresh, s, fst)
		sst := &semantic.Statement{}
		serr, span := safeParse(shared, s, sst)
		if fpan != nil {
			ctx.Label("fresh-parser-panics(C08)")
			return nil // C08's subject; the sequence cannot be judged further
		}
		if ferr != nil {
			// the valid pool statements are written in the forms the documentation and the
			// repository's own examples use: each is a whole statement of the language
			for _, v := range c18Pool[:c18ValidPool] {
				if v == s {
					return fmt.Errorf("statement %d %q, written in documented forms only, is rejected by a fresh parser: %v", i, s, ferr)
				}
			}
		}
		mismatch := ""
		switch {
		case span != nil:
			mismatch = fmt.Sprintf("the reused parser panics (%v) while a fresh parser does not", span)
		case (ferr == nil) != (serr == nil):
			mismatch = fmt.Sprintf("fresh parser error=%v, reused parser error=%v", ferr, serr)
		case ferr == nil:
			fm, fp := meaningOf(fst)
			sm, sp := meaningOf(sst)
			// determined by the text alone: a second fresh parser extracts the same meaning
			fresh2, _ := grammar.NewParser(grammar.SemanticBQL())
			fst2 := &semantic.Statement{}
			if ferr2, fpan2 := safeParse(fresh2, s, fst2); ferr2 == nil && fpan2 == nil {
				if fm2, fp2 := meaningOf(fst2); fp2 == nil && fp == nil && fm2 != fm {
					return fmt.Errorf("statement %d %q: two fresh parsers extract different meanings from the same text:\n--- first\n%s--- second\n%s", i, s, fm, fm2)
				}
			}
			if fp != nil || sp != nil {
				mismatch = fmt.Sprintf("statement accessors panic: fresh %v reused %v", fp, sp)
			} else if fm != sm {
				mismatch = fmt.Sprintf("extracted meaning differs:\n--- fresh parser\n%s--- reused parser\n%s", fm, sm)
			}
		}
		if mismatch != "" {
			return fmt.Errorf("statement %d %q depends on the statements parsed before it %q: %s", i, s, c.Stmts[:i], mismatch)
		}
		if ferr == nil && (rejectedBefore || i > 0 && (strings.Contains(strings.ToLower(c.Stmts[i-1]), "between") || strings.HasPrefix(c.Stmts[i-1], "insert"))) {
			interesting = true
		}
		if ferr != nil {
			rejectedBefore = true
		}
	}
	if interesting {
		ctx.Nontrivial()
	}
	if rejectedBefore {
		ctx.Label("has-rejected-statement")
	}
	return nil
}

func TestC18Seq(t *testing.T) {
	pbt.Run(t, "C18", "TestC18Seq", genC18Seq, checkC18Seq)
}
