package props

// C16 — the lexer tokenises every input faithfully.

import (
	"fmt"
	"strings"
	"testing"
	"time"
	"unicode"
	"unicode/utf8"

	"verif/harness/gen"
	"verif/harness/isolate"
	"verif/harness/model"
	"verif/harness/pbt"

	"github.com/google/badwolf/bql/lexer"
	"pgregory.net/rapid"
)

type tok struct {
	K int    `json:"k"`
	T string `json:"t"`
}

type c16LexReq struct {
	In   []string `json:"in"`
	Caps []int    `json:"caps"`
	Full bool     `json:"full"` // return the token lists (single-input mode)
}

type c16LexResp struct {
	Fail int     `json:"fail"` // index of the first input violating the structural invariants, -1 if none
	Msg  string  `json:"msg,omitempty"`
	Toks [][]tok `json:"toks,omitempty"` // per capacity, for In[0] when Full
	N    int     `json:"n"`              // inputs with >= 2 non-terminal tokens or an error after >= 1 token
}

func lexAll(in string, capacity int) []tok {
	var out []tok
	for t := range lexer.New(in, capacity) {
		out = append(out, tok{K: int(t.Type), T: t.Text})
	}
	return out
}

// structural invariants of one token sequence for one input
func c16Structure(in string, toks []tok) error {
	if len(toks) == 0 {
		return fmt.Errorf("no token at all (not even EOF) for %q", in)
	}
	last := toks[len(toks)-1]
	if last.K != int(lexer.ItemEOF) && last.K != int(lexer.ItemError) {
		return fmt.Errorf("last token of %q is %v %q, not EOF/ERROR", in, lexer.TokenType(last.K), last.T)
	}
	for i, t := range toks[:len(toks)-1] {
		if t.K == int(lexer.ItemEOF) || t.K == int(lexer.ItemError) {
			return fmt.Errorf("terminal token %v at position %d of %d for %q", lexer.TokenType(t.K), i, len(toks), in)
		}
	}
	// greedy left-most embedding of the token texts as non-overlapping substrings in order
	pos := 0
	for i, t := range toks {
		j := strings.Index(in[pos:], t.T)
		if j < 0 {
			return fmt.Errorf("token %d (%v %q) of %q is not a substring after offset %d (tokens %v)", i, lexer.TokenType(t.K), t.T, in, pos, toks)
		}
		pos += j + len(t.T)
	}
	return nil
}

func c16Interesting(toks []tok) bool {
	if len(toks) >= 3 {
		return true
	}
	return len(toks) == 2 && toks[1].K == int(lexer.ItemError)
}

func sameToks(a, b []tok) bool {
	if len(a) != len(b) {
		return false
	}
	for i := range a {
		if a[i] != b[i] {
			return false
		}
	}
	return true
}

func init() {
	isolate.Register("c16lex", func(req []byte) []byte {
		var r c16LexReq
		if err := jsonUnmarshal(req, &r); err != nil {
			return jsonMarshal(c16LexResp{Fail: 0, Msg: "bad request: " + err.Error()})
		}
		resp := c16LexResp{Fail: -1}
		for i, in := range r.In {
			var first []tok
			for ci, c := range r.Caps {
				toks := lexAll(in, c)
				if r.Full && i == 0 {
					resp.Toks = append(resp.Toks, toks)
				}
				if err := c16Structure(in, toks); err != nil && resp.Fail < 0 {
					resp.Fail, resp.Msg = i, fmt.Sprintf("capacity %d: %v", c, err)
				}
				if ci == 0 {
					first = toks
					if c16Interesting(toks) {
						resp.N++
					}
				} else if !sameToks(first, toks) && resp.Fail < 0 {
					resp.Fail, resp.Msg = i, fmt.Sprintf("token sequence of %q depends on the channel capacity: cap %d %v, cap %d %v", in, r.Caps[0], first, c, toks)
				}
			}
			if resp.Fail >= 0 && !r.Full {
				break
			}
		}
		return jsonMarshal(resp)
	})
}

const c16Hang = 20 * time.Second

var c16Caps = []int{0, 1, 2, 64, -1}

// lexIsolated lexes one input in the worker with all capacities; a crash or hang
// is returned as an error (C16 includes termination).
func lexIsolated(in string) ([]tok, error) {
	var resp c16LexResp
	o, err := isolate.CallJSON("c16lex", c16LexReq{In: []string{in}, Caps: c16Caps, Full: true}, &resp, c16Hang)
	if err != nil {
		return nil, fmt.Errorf("infrastructure: %v", err)
	}
	if o.Crashed {
		return nil, fmt.Errorf("lexer crashed the process on %q: %s", in, lastLines(o.Stderr, 12))
	}
	if o.Hung {
		return nil, fmt.Errorf("lexer did not finish (channel not closed) within %v on %q: %s", c16Hang, in, lastLines(o.Stderr, 12))
	}
	if resp.Fail >= 0 {
		return nil, fmt.Errorf("%s", resp.Msg)
	}
	if len(resp.Toks) == 0 {
		return nil, fmt.Errorf("infrastructure: worker returned no tokens")
	}
	return resp.Toks[0], nil
}

func lastLines(s string, n int) string {
	l := strings.Split(strings.TrimSpace(s), "\n")
	if len(l) > n {
		l = l[:n] // the panic message and top frames come first
	}
	return strings.Join(l, " | ")
}

// ---- generated inputs ----

type c16Case struct {
	In  string `json:"in"`
	Src string `json:"src"`
	// for the printed-value relation
	Val  *anySpec `json:"val,omitempty"`
	Want string   `json:"want,omitempty"` // expected token kind name
}

var c16Keywords = []string{"select", "insert", "delete", "create", "construct", "deconstruct", "drop", "graph", "data", "into", "from", "where", "as", "type", "id", "at", "in", "before", "after", "between", "count", "distinct", "sum", "group", "by", "order", "having", "asc", "desc", "limit", "not", "and", "or", "show", "graphs", "optional", "filter"}

var c16Lexemes = []string{"?x", "?foo_1", "?_", "?_x1", "?1", "?é", "/u<a>", "/t/x<a b>", "_:v", "\"p\"@[]", "\"p\"@[2006-01-02T15:04:05Z]", "\"p\"@[2006-01-02T15:04:05Z,2007-01-02T15:04:05Z]", "\"p\"@[,]", "\"p\"@[,,]", "\"p\"@[2006-01-02T15:04:05Z,2007-01-02T15:04:05Z,]", "\"\"@[,,,]", "\"p\"@[?a,?b]", "\"1\"^^type:int64", "\"x y\"^^type:text", "\"true\"^^TYPE:BOOL", "\"[1 2]\"^^type:blob", "\"1.5\"^^type:Float64", "{", "}", "(", ")", ".", ";", ",", "<", ">", "=", "2006-01-02T15:04:05Z", "2006-01-02T15:04:05.5+01:00,2007-01-02T15:04:05Z", "latest", "isTemporal", "latest(", "#", "\\", "\"", "\"unterminated", "/t<unterminated", "_:", "_x", "?", "@[", "^^type:", "1", "é", "世"}

func genStatementish(t *rapid.T) string {
	n := rapid.IntRange(0, 14).Draw(t, "ntok")
	var parts []string
	for i := 0; i < n; i++ {
		if rapid.Bool().Draw(t, "kw") {
			k := rapid.SampledFrom(c16Keywords).Draw(t, "keyword")
			if rapid.IntRange(0, 3).Draw(t, "upper") == 0 {
				k = strings.ToUpper(k)
			}
			parts = append(parts, k)
		} else {
			parts = append(parts, rapid.SampledFrom(c16Lexemes).Draw(t, "lexeme"))
		}
	}
	seps := []string{" ", " ", " ", "", "\t", "\n", "  ", "\r\n"}
	var sb strings.Builder
	for _, p := range parts {
		sb.WriteString(p)
		sb.WriteString(rapid.SampledFrom(seps).Draw(t, "sep"))
	}
	return sb.String()
}

var c16Valid = []string{
	"select ?s, ?p, ?o from ?g where {?s ?p ?o};",
	"select ?s as ?x, count(distinct ?o) as ?n from ?a, ?b where {?s \"p\"@[] ?o . ?o \"q\"@[2006-01-02T15:04:05Z] ?z} group by ?s order by ?n desc having (?n > \"1\"^^type:int64) and not ?s = /u<a> limit \"10\"^^type:int64;",
	"select ?s from ?g where {?s \"p\"@[?t] ?o at ?t2 . optional {?s ?p ?o} . filter latest(?p)} before 2006-01-02T15:04:05Z;",
	"select ?s from ?g where {/u<a> as ?a type ?ty id ?i \"p\"@[,2006-01-02T15:04:05Z] as ?pp id ?pi at ?pt ?o} between 2006-01-02T15:04:05Z, 2007-01-02T15:04:05Z;",
	"insert data into ?a, ?b {/u<a> \"p\"@[] /u<b> . /u<a> \"p\"@[2006-01-02T15:04:05Z] \"1\"^^type:int64};",
	"delete data from ?a {/u<a> \"p\"@[] \"q\"@[]};",
	"create graph ?a, ?b;", "drop graph ?a;", "show graphs;",
	"construct {?s \"p\"@[?t] ?o ; \"q\"@[] ?o . _:v \"r\"@[] ?s} into ?b from ?a where {?s \"p\"@[?t] ?o} having ?t > 2006-01-02T15:04:05Z;",
	"deconstruct {?s \"p\"@[] ?o} in ?b from ?a where {?s \"p\"@[] ?o} after 2006-01-02T15:04:05Z;",
}

func genC16(t *rapid.T) c16Case {
	switch rapid.IntRange(0, 9).Draw(t, "src") {
	case 0, 1:
		return c16Case{Src: "statementish", In: genStatementish(t)}
	case 2:
		s := rapid.String().Draw(t, "any")
		return c16Case{Src: "random-runes", In: s}
	case 3:
		b := rapid.SliceOfN(rapid.Byte(), 0, 24).Draw(t, "bytes")
		return c16Case{Src: "random-bytes", In: string(b)}
	case 4, 5:
		s := rapid.SampledFrom(c16Valid).Draw(t, "valid")
		n := rapid.IntRange(0, 2).Draw(t, "nmut")
		for i := 0; i < n; i++ {
			s = mutateText(t, s)
		}
		return c16Case{Src: "mutated-statement", In: s}
	case 6:
		return c16Case{Src: "valid-statement", In: rapid.SampledFrom(c16Valid).Draw(t, "valid")}
	default:
		// printed value followed by a space
		var a anySpec
		var want string
		switch rapid.IntRange(0, 5).Draw(t, "vk") {
		case 0:
			n := gen.Node().Draw(t, "n")
			a.N, want = &n, "NODE"
		case 1, 2:
			p := gen.Pred().Draw(t, "p")
			a.P, want = &p, "PREDICATE"
		case 3, 4:
			l := gen.Lit(true).Draw(t, "l")
			a.L, want = &l, "LITERAL"
		default:
			nm := rapid.StringMatching(`[A-Za-zé世][A-Za-z0-9_é世]{0,6}`).Draw(t, "name")
			switch rapid.IntRange(0, 2).Draw(t, "bk") {
			case 0:
				// a binding name is any run of letters, digits and underscores: it may start with any of them
				bn := rapid.StringMatching(`[A-Za-z0-9_é世]{1,7}`).Draw(t, "bname")
				return c16Case{Src: "printed-value", In: "?" + bn + " ", Want: "BINDING"}
			case 1:
				return c16Case{Src: "printed-value", In: "_:" + nm + " ", Want: "BLANK_NODE"}
			default:
				lo := gen.Time().Draw(t, "lo").Time().Format(time.RFC3339Nano)
				hi := gen.Time().Draw(t, "hi").Time().Format(time.RFC3339Nano)
				switch rapid.IntRange(0, 3).Draw(t, "side") {
				case 0:
					lo = ""
				case 1:
					hi = ""
				}
				id := rapid.SampledFrom([]string{"p", "knows", "é", "a]b", "x,y"}).Draw(t, "bid")
				return c16Case{Src: "printed-value", In: fmt.Sprintf("%q@[%s,%s] ", id, lo, hi), Want: "PREDICATE_BOUND"}
			}
		}
		v, _ := a.build()
		return c16Case{Src: "printed-value", In: stringOf(v) + " ", Val: &a, Want: want}
	}
}

func isKeywordKind(k int) bool {
	switch lexer.TokenType(k) {
	case lexer.ItemError, lexer.ItemEOF, lexer.ItemBinding, lexer.ItemNode, lexer.ItemBlankNode, lexer.ItemLiteral, lexer.ItemPredicate,
		lexer.ItemPredicateBound, lexer.ItemTime, lexer.ItemLBracket, lexer.ItemRBracket, lexer.ItemLPar, lexer.ItemRPar, lexer.ItemDot,
		lexer.ItemSemicolon, lexer.ItemComma, lexer.ItemLT, lexer.ItemGT, lexer.ItemEQ, lexer.ItemFilterFunction:
		return false
	}
	return true
}

func flipASCII(s string) string {
	b := []byte(s)
	for i, c := range b {
		switch {
		case c >= 'a' && c <= 'z':
			b[i] = c - 32
		case c >= 'A' && c <= 'Z':
			b[i] = c + 32
		}
	}
	return string(b)
}

// spans locates the token texts in the input (greedy left-most embedding).
func spans(in string, toks []tok) [][2]int {
	var out [][2]int
	pos := 0
	for _, t := range toks {
		j := strings.Index(in[pos:], t.T)
		if j < 0 {
			return nil
		}
		out = append(out, [2]int{pos + j, pos + j + len(t.T)})
		pos += j + len(t.T)
	}
	return out
}

func isAllSpace(s string) bool {
	for _, r := range s {
		if !unicode.IsSpace(r) {
			return false
		}
	}
	return true
}

func predOrTextHasQuoteOrBackslashEnd(a *anySpec) (quote bool, bsEnd bool) {
	if a == nil {
		return
	}
	switch {
	case a.P != nil:
		return strings.Contains(a.P.ID, "\""), strings.HasSuffix(a.P.ID, "\\")
	case a.L != nil && a.L.Kind == "text":
		return strings.Contains(a.L.S, "\""), strings.HasSuffix(a.L.S, "\\")
	case a.N != nil:
		return strings.Contains(a.N.ID, "\"") || strings.Contains(a.N.Type, "\""), false
	}
	return
}

func checkC16(ctx *pbt.Ctx, c c16Case) error {
	ctx.Label("src:" + c.Src)
	toks, err := lexIsolated(c.In)
	if err != nil {
		return err
	}
	if c16Interesting(toks) {
		ctx.Nontrivial()
	}
	if toks[len(toks)-1].K == int(lexer.ItemError) {
		ctx.Label("ends-in-error")
	}

	// (iii) printed forms are one token
	if c.Want != "" {
		q, bs := predOrTextHasQuoteOrBackslashEnd(c.Val)
		if q {
			ctx.Label("embedded-quote(outside statement)")
		} else {
			ok := len(toks) == 2 && lexer.TokenType(toks[0].K).String() == c.Want && toks[0].T == strings.TrimSuffix(c.In, " ") && toks[1].K == int(lexer.ItemEOF)
			if !ok {
				if bs && c.Val != nil && c.Val.L != nil && ctx.Known("KF-C16-LITERAL-BACKSLASH") {
					return nil
				}
				return fmt.Errorf("printed form %q should lex as one %s token with exactly that text and then EOF, got %v", c.In, c.Want, showToks(toks))
			}
			ctx.Label("printed-one-token")
		}
	}
	if !utf8.ValidString(c.In) {
		return nil // the relations below rewrite the text; keep them to valid UTF-8
	}
	sp := spans(c.In, toks)
	if sp == nil {
		return fmt.Errorf("internal: spans not found")
	}

	// (i) case flip of keyword letters and literal type names
	{
		var sb strings.Builder
		pos := 0
		changed := false
		for i, t := range toks {
			sb.WriteString(c.In[pos:sp[i][0]])
			txt := c.In[sp[i][0]:sp[i][1]]
			switch {
			case isKeywordKind(t.K):
				f := flipASCII(txt)
				changed = changed || f != txt
				txt = f
			case t.K == int(lexer.ItemLiteral):
				if j := strings.LastIndex(strings.ToLower(txt), "^^type:"); j >= 0 {
					f := txt[:j+7] + flipASCII(txt[j+7:])
					changed = changed || f != txt
					txt = f
				}
			}
			sb.WriteString(txt)
			pos = sp[i][1]
		}
		sb.WriteString(c.In[pos:])
		if changed {
			flipped := sb.String()
			t2, err := lexIsolated(flipped)
			if err != nil {
				return fmt.Errorf("after flipping the case of keywords/type names (%q -> %q): %v", c.In, flipped, err)
			}
			if len(t2) != len(toks) {
				return fmt.Errorf("flipping the case of keywords/type names changes the tokens: %q -> %v, %q -> %v", c.In, showToks(toks), flipped, showToks(t2))
			}
			for i := range toks {
				same := t2[i].K == toks[i].K
				if same && !isKeywordKind(toks[i].K) && toks[i].K != int(lexer.ItemLiteral) && toks[i].K != int(lexer.ItemError) && toks[i].K != int(lexer.ItemEOF) {
					same = t2[i].T == toks[i].T
				}
				if !same {
					return fmt.Errorf("flipping the case of keywords/type names changes token %d: %q -> %v, %q -> %v", i, c.In, showToks(toks), flipped, showToks(t2))
				}
			}
			ctx.Label("case-flip-checked")
		}
	}

	// (ii) whitespace between tokens: non-empty whitespace gap -> another non-empty whitespace run
	{
		// move whitespace at token edges into the gaps
		type span struct{ a, b int }
		var core []span
		for i := range toks {
			a, b := sp[i][0], sp[i][1]
			for a < b {
				r, w := utf8.DecodeRuneInString(c.In[a:])
				if !unicode.IsSpace(r) {
					break
				}
				a += w
			}
			for b > a {
				r, w := utf8.DecodeLastRuneInString(c.In[:b])
				if !unicode.IsSpace(r) {
					break
				}
				b -= w
			}
			core = append(core, span{a, b})
		}
		// only tokens before the terminal one: what follows an error token is not tokenised
		n := len(toks) - 1
		if n >= 2 {
			repl := []string{" ", "  ", "\t", "\n", " \n\t "}
			var sb strings.Builder
			sb.WriteString(c.In[:core[0].b])
			changed := false
			for i := 1; i < n; i++ {
				gap := c.In[core[i-1].b:core[i].a]
				if gap != "" && isAllSpace(gap) {
					ng := repl[(i+len(gap)+len(c.In))%len(repl)]
					if ng == gap {
						ng = repl[(i+1+len(gap)+len(c.In))%len(repl)]
					}
					sb.WriteString(ng)
					changed = true
				} else {
					sb.WriteString(gap)
				}
				sb.WriteString(c.In[core[i].a:core[i].b])
			}
			sb.WriteString(c.In[core[n-1].b:])
			if changed {
				ws := sb.String()
				t2, err := lexIsolated(ws)
				if err != nil {
					return fmt.Errorf("after changing whitespace between tokens (%q -> %q): %v", c.In, ws, err)
				}
				bad := len(t2) != len(toks)
				for i := 0; !bad && i < n; i++ {
					if t2[i].K != toks[i].K || strings.TrimSpace(t2[i].T) != strings.TrimSpace(toks[i].T) {
						bad = true
					}
				}
				if !bad && t2[n].K != toks[n].K {
					bad = true
				}
				if bad {
					return fmt.Errorf("changing the amount of whitespace between tokens changes the tokens: %q -> %v, %q -> %v", c.In, showToks(toks), ws, showToks(t2))
				}
				ctx.Label("whitespace-checked")
			}
		}
	}
	return nil
}

func showToks(ts []tok) string {
	var p []string
	for _, t := range ts {
		p = append(p, fmt.Sprintf("%v:%q", lexer.TokenType(t.K), t.T))
	}
	return "[" + strings.Join(p, " ") + "]"
}

func TestC16(t *testing.T) {
	pbt.Run(t, "C16", "TestC16", genC16, checkC16)
}

// ---- exhaustive strings over a small alphabet ----

var c16ExhAlphabet = []string{"?", "/", "<", ">", "\"", "@", "[", "]", ",", ";", "a", " "}

type c16ExhCase struct {
	In string `json:"in"`
}

func checkC16Exh(ctx *pbt.Ctx, c c16ExhCase) error {
	toks, err := lexIsolated(c.In)
	if err != nil {
		return err
	}
	if c16Interesting(toks) {
		ctx.Nontrivial()
	}
	return nil
}

func TestC16Exh(t *testing.T) {
	if pbt.ReplayPath() != "" {
		pbt.Run(t, "C16", "TestC16Exh", func(*rapid.T) c16ExhCase { return c16ExhCase{} }, checkC16Exh)
		return
	}
	shard, nsh := pbt.Shard()
	maxLen := 5
	if pbt.Thorough() {
		maxLen = 6
	}
	k := len(c16ExhAlphabet)
	total := 0
	interesting := 0
	var batch []string
	var samples []interface{}
	flush := func() {
		if len(batch) == 0 {
			return
		}
		var resp c16LexResp
		o, err := isolate.CallJSON("c16lex", c16LexReq{In: batch, Caps: []int{0, 64}}, &resp, 60*time.Second)
		if err != nil {
			t.Fatalf("infrastructure: %v", err)
		}
		if o.Crashed || o.Hung || resp.Fail >= 0 {
			// find the culprit one input at a time
			for _, in := range batch {
				pbt.Eval(t, "C16", "TestC16Exh", c16ExhCase{In: in}, checkC16Exh)
			}
			t.Fatalf("batch failed (crash=%v hang=%v fail=%d %s) but no single input reproduces it", o.Crashed, o.Hung, resp.Fail, resp.Msg)
		}
		total += len(batch)
		interesting += resp.N
		if len(samples) < 4 {
			samples = append(samples, map[string]string{"in": batch[len(batch)/2]})
		}
		batch = batch[:0]
	}
	idx := 0
	var rec func(prefix string, depth int)
	rec = func(prefix string, depth int) {
		idx++
		if idx%nsh == shard {
			batch = append(batch, prefix)
			if len(batch) >= 512 {
				flush()
			}
		}
		if depth == maxLen {
			return
		}
		for i := 0; i < k; i++ {
			rec(prefix+c16ExhAlphabet[i], depth+1)
		}
	}
	rec("", 0)
	// second family: every string up to length 4 over the alphabet placed INSIDE the
	// anchor brackets of a predicate and inside the quotes of a literal, followed by
	// another token (what follows an ERROR token must never be tokenised)
	inner := 3
	if pbt.Thorough() {
		inner = 4
	}
	var rec2 func(mid string, depth int)
	rec2 = func(mid string, depth int) {
		idx++
		if idx%nsh == shard {
			batch = append(batch, "\"p\"@["+mid+"] ?x", "\""+mid+"\"^^type:text ?x", "/u<"+mid+"> ?x")
			if len(batch) >= 512 {
				flush()
			}
		}
		if depth == inner {
			return
		}
		for i := 0; i < k; i++ {
			rec2(mid+c16ExhAlphabet[i], depth+1)
		}
	}
	rec2("", 0)
	flush()
	pbt.RecordBulk("TestC16Exh", total, interesting, fmt.Sprintf("all strings of length <= %d over %v (shard %d/%d)", maxLen, c16ExhAlphabet, shard, nsh),
		samples)
	pbt.SetExhaustive("TestC16Exh")
	pbt.SetExtra("TestC16Exh", "max_len", maxLen)
}

var _ = model.KeyTime
