package props

// C17 — every alternative of every BQL grammar rule is live and chosen by one token.

import (
	"fmt"
	"testing"

	"verif/harness/gram"
	"verif/harness/pbt"

	"github.com/google/badwolf/bql/grammar"
	"github.com/google/badwolf/bql/lexer"
	"github.com/google/badwolf/bql/semantic"
	"pgregory.net/rapid"
)

type c17Case struct {
	Rule string `json:"rule"`
	Alt  int    `json:"alt"`
}

// probedGrammar returns a private copy of BQL() whose ProcessStart hooks record
// which (rule, alternative) the parser entered, in order.
func probedGrammar(fired *[]gram.PathItem) *grammar.Grammar {
	g := grammar.BQL()
	for sym, clauses := range *g {
		for i, c := range clauses {
			rule, alt := string(sym), i
			c.ProcessStart = func(*semantic.Statement, semantic.Symbol) (semantic.ClauseHook, error) {
				*fired = append(*fired, gram.PathItem{Rule: rule, Alt: alt})
				return nil, nil
			}
		}
	}
	return g
}

func nonEmptyPath(t gram.Table, p []gram.PathItem) []gram.PathItem {
	var out []gram.PathItem
	for _, it := range p {
		if len(t[it.Rule][it.Alt]) > 0 {
			out = append(out, it)
		}
	}
	return out
}

func samePath(a, b []gram.PathItem) bool {
	if len(a) != len(b) {
		return false
	}
	for i := range a {
		if a[i] != b[i] {
			return false
		}
	}
	return true
}

// tryWitness parses the sentence with the real parser on the probed grammar and
// tells whether it was accepted through exactly the intended derivation.
func tryWitness(t gram.Table, kinds []lexer.TokenType, path []gram.PathItem) (text string, ok bool, why string) {
	text = gram.Concretise(kinds)
	back, clean := gram.Kinds(text)
	if !clean || !gram.SameKinds(back, kinds) {
		return text, false, fmt.Sprintf("lexer maps %q to [%s] instead of [%s]", text, gram.KindNames(back), gram.KindNames(kinds))
	}
	var fired []gram.PathItem
	g := probedGrammar(&fired)
	acc, _, err := gram.ParseAccepts(g, text)
	if err != nil {
		return text, false, "NewParser: " + err.Error()
	}
	if !acc {
		return text, false, "the parser rejects it"
	}
	want := nonEmptyPath(t, path)
	if !samePath(fired, want) {
		return text, false, fmt.Sprintf("the parser took the derivation %v instead of %v", fired, want)
	}
	return text, true, ""
}

func checkC17Alt(ctx *pbt.Ctx, c c17Case) error {
	t := gram.FromGrammar(grammar.BQL())
	alts, ok := t[c.Rule]
	if !ok || c.Alt >= len(alts) {
		return fmt.Errorf("alternative %s#%d does not exist in the current grammar", c.Rule, c.Alt)
	}
	if len(alts) >= 2 {
		ctx.Nontrivial()
	}
	min := t.MinLengths()
	chains := t.Chains(min)
	chain, reach := chains[c.Rule]
	if !reach {
		return fmt.Errorf("rule %s is not reachable from START", c.Rule)
	}
	if _, prod := min[c.Rule]; !prod {
		return fmt.Errorf("rule %s derives no finite statement", c.Rule)
	}
	var path []gram.PathItem
	kinds := t.DeriveVia(chain, c.Rule, c.Alt, min, &path)
	text, good, why := tryWitness(t, kinds, path)
	tries := 1
	// if the shortest witness is deflected by a greedy choice elsewhere, search
	// random derivations that go through this alternative (deterministic LCG)
	seed := uint64(len(c.Rule)*7919 + c.Alt + 1)
	for !good && tries < 400 {
		tries++
		var p2 []gram.PathItem
		ch := func(n int, _ string) int {
			seed = seed*6364136223846793005 + 1442695040888963407
			return int((seed >> 33) % uint64(n))
		}
		k2 := t.RandomSentence("START", 0, 6, min, ch, &p2)
		hit := false
		for _, it := range p2 {
			if it.Rule == c.Rule && it.Alt == c.Alt {
				hit = true
			}
		}
		if !hit {
			continue
		}
		var w2 string
		if text2, g2, _ := tryWitness(t, k2, p2); g2 {
			text, good, w2 = text2, true, ""
			_ = w2
		}
	}
	if !good {
		return fmt.Errorf("no witness statement found that the parser accepts by taking alternative #%d of %s (%v); shortest candidate %q: %s", c.Alt, c.Rule, alts[c.Alt], text, why)
	}
	ctx.Sample(map[string]interface{}{"rule": c.Rule, "alt": c.Alt, "elements": fmt.Sprint(alts[c.Alt]), "witness": text, "candidates_tried": tries})
	return nil
}

// TestC17 enumerates the finite tables completely.
func TestC17(t *testing.T) {
	if pbt.ReplayPath() != "" {
		pbt.Run(t, "C17", "TestC17", func(*rapid.T) c17Case { return c17Case{} }, checkC17Alt)
		return
	}
	plain := gram.FromGrammar(grammar.BQL())
	sem := gram.FromGrammar(grammar.SemanticBQL())
	for name, tb := range map[string]gram.Table{"BQL": plain, "SemanticBQL": sem} {
		if probs := tb.StaticProblems(); len(probs) > 0 {
			pbt.WriteFail("C17", "TestC17Static", fmt.Sprintf("%s: %v", name, probs), map[string]string{"grammar": name})
			t.Fatalf("grammar %s: %v", name, probs)
		}
	}
	if probs := gram.Diff(plain, sem, "BQL()", "SemanticBQL()"); len(probs) > 0 {
		pbt.WriteFail("C17", "TestC17Static", fmt.Sprint(probs), map[string]string{"grammar": "diff"})
		t.Fatalf("grammars differ: %v", probs)
	}
	if _, err := grammar.NewParser(grammar.BQL()); err != nil {
		t.Fatalf("NewParser(BQL()): %v", err)
	}
	nrules, nalts, nempty := 0, 0, 0
	for _, r := range plain.Rules() {
		nrules++
		for i, a := range plain[r] {
			nalts++
			if len(a) == 0 {
				nempty++
			}
			pbt.Eval(t, "C17", "TestC17", c17Case{Rule: r, Alt: i}, checkC17Alt)
		}
	}
	pbt.SetExtra("TestC17", "rules", nrules)
	pbt.SetExtra("TestC17", "alternatives", nalts)
	pbt.SetExtra("TestC17", "empty_alternatives", nempty)
	pbt.SetExhaustive("TestC17")
}

// TestC17Static exists so that a stored static failure can be replayed.
func TestC17Static(t *testing.T) {
	plain := gram.FromGrammar(grammar.BQL())
	sem := gram.FromGrammar(grammar.SemanticBQL())
	check := func(ctx *pbt.Ctx, c map[string]string) error {
		for name, tb := range map[string]gram.Table{"BQL": plain, "SemanticBQL": sem} {
			if probs := tb.StaticProblems(); len(probs) > 0 {
				return fmt.Errorf("%s: %v", name, probs)
			}
		}
		if probs := gram.Diff(plain, sem, "BQL()", "SemanticBQL()"); len(probs) > 0 {
			return fmt.Errorf("%v", probs)
		}
		ctx.Nontrivial()
		return nil
	}
	if pbt.ReplayPath() != "" {
		pbt.Run(t, "C17", "TestC17Static", func(*rapid.T) map[string]string { return nil }, check)
		return
	}
	pbt.Eval(t, "C17", "TestC17Static", map[string]string{"grammar": "both"}, check)
}

// ---- random sentences reach alternatives through other contexts ----

type c17Sentence struct {
	Choices []int `json:"choices"`
}

func genC17Sentence(t *rapid.T) c17Sentence {
	return c17Sentence{Choices: rapid.SliceOfN(rapid.IntRange(0, 7), 40, 40).Draw(t, "choices")}
}

func checkC17Sentence(ctx *pbt.Ctx, c c17Sentence) error {
	t := gram.FromGrammar(grammar.BQL())
	min := t.MinLengths()
	i := 0
	ch := func(n int, _ string) int {
		v := 0
		if i < len(c.Choices) {
			v = c.Choices[i]
		}
		i++
		return v % n
	}
	var path []gram.PathItem
	kinds := t.RandomSentence("START", 0, 7, min, ch, &path)
	text := gram.Concretise(kinds)
	back, clean := gram.Kinds(text)
	if !clean || !gram.SameKinds(back, kinds) {
		ctx.Label("unrealisable")
		return nil
	}
	var fired []gram.PathItem
	g := probedGrammar(&fired)
	acc, _, err := gram.ParseAccepts(g, text)
	if err != nil {
		return err
	}
	// A random derivation may take an empty alternative where the next token also
	// starts a non-empty one; the greedy parser then legitimately follows another
	// derivation (or rejects). Only greedy-consistent derivations are required.
	if !t.GreedyAccepts(kinds) {
		ctx.Label("not-greedy")
		return nil
	}
	if !acc {
		return fmt.Errorf("derivable (greedy) sentence rejected by the parser: %q [%s]", text, gram.KindNames(kinds))
	}
	if len(kinds) >= 8 {
		ctx.Nontrivial()
	}
	if samePath(fired, nonEmptyPath(t, path)) {
		ctx.Label("same-derivation")
	} else {
		ctx.Label("other-derivation")
	}
	ctx.Sample(map[string]interface{}{"sentence": text})
	return nil
}

func TestC17Sentences(t *testing.T) {
	pbt.Run(t, "C17", "TestC17Sentences", genC17Sentence, checkC17Sentence)
}
