package props

// C07 — concurrent use of a store: linearizable, race-free, deadlock-free.

import (
	"context"
	"fmt"
	"reflect"
	"runtime"
	"sort"
	"strings"
	"sync"
	"sync/atomic"
	"testing"
	"time"

	"verif/harness/bq"
	"verif/harness/gen"
	"verif/harness/isolate"
	"verif/harness/model"
	"verif/harness/pbt"

	"github.com/google/badwolf/storage"
	"github.com/google/badwolf/storage/memoization"
	"github.com/google/badwolf/storage/memory"
	"github.com/google/badwolf/triple"
	"pgregory.net/rapid"
)

// ---- 1. recorded small histories with exhaustive linearization search ----

type c07Op struct {
	Kind  string `json:"kind"` // add rem exist triples forsubj objects newgraph delgraph getgraph names
	Batch []int  `json:"batch,omitempty"`
	T     int    `json:"t,omitempty"`
	Pad   int    `json:"pad,omitempty"` // Gosched calls before the operation
	Name  int    `json:"name,omitempty"`
}

type c07Program struct {
	Threads [][]c07Op `json:"threads"`
	Runs    int       `json:"runs"`
	Procs   int       `json:"procs"`
	Store   bool      `json:"store,omitempty"` // store-level program (graph names) instead of triples
}

func c07Universe() []model.TripleSpec {
	ua, ub := model.NodeSpec{Type: "/u", ID: "a"}, model.NodeSpec{Type: "/u", ID: "b"}
	t0 := model.TimeSpec{Sec: bq.BaseSec}
	return []model.TripleSpec{
		{S: ua, P: model.PredSpec{ID: "p"}, O: model.ObjSpec{N: &ub}},
		{S: ua, P: model.PredSpec{ID: "p", Anchor: &t0}, O: model.ObjSpec{N: &ub}},
		{S: ua, P: model.PredSpec{ID: "q"}, O: model.ObjSpec{L: &model.LitSpec{Kind: "int64", I: 1}}},
		{S: ub, P: model.PredSpec{ID: "p"}, O: model.ObjSpec{N: &ua}},
	}
}

func genC07Program(t *rapid.T) c07Program {
	var p c07Program
	p.Store = gen.Maybe(t, 15, "storelevel")
	nt := 2 + gen.Uniform(t, 3, "nthreads")
	total := 0
	for i := 0; i < nt; i++ {
		no := 1 + gen.Uniform(t, 4, "nops")
		var ops []c07Op
		for j := 0; j < no && total < 9; j++ {
			var op c07Op
			if p.Store {
				op.Kind = gen.Pick(t, []string{"newgraph", "newgraph", "delgraph", "getgraph", "names"}, "skind")
				op.Name = gen.Uniform(t, 2, "name")
			} else {
				switch k := gen.Uniform(t, 10, "kind"); {
				case k < 3:
					op.Kind = "add"
				case k < 5:
					op.Kind = "rem"
				case k < 6:
					op.Kind = "exist"
					op.T = gen.Uniform(t, 4, "t")
				case k < 8:
					op.Kind = "triples"
				case k < 9:
					op.Kind = "forsubj"
				default:
					op.Kind = "objects"
				}
				if op.Kind == "add" || op.Kind == "rem" {
					n := 1 + gen.Uniform(t, 3, "nbatch")
					for b := 0; b < n; b++ {
						op.Batch = append(op.Batch, gen.Uniform(t, 4, "b"))
					}
				}
			}
			op.Pad = gen.Uniform(t, 3, "pad")
			ops = append(ops, op)
			total++
		}
		if len(ops) > 0 {
			p.Threads = append(p.Threads, ops)
		}
	}
	p.Runs = 20
	p.Procs = gen.Pick(t, []int{2, 4, 16}, "procs")
	return p
}

type c07Event struct {
	Thread, Index int
	Inv, Res      int64
	Op            c07Op
	// observations
	Bool bool
	Set  uint8 // bitmask over the 4-triple universe (lookups); for store-level: over 2 names
	Err  bool
}

func lookupMask(g storage.Graph, kind string, real []*triple.Triple, keys []string) (uint8, error) {
	bg := context.Background()
	var got []string
	var err error
	switch kind {
	case "triples":
		ch := make(chan *triple.Triple, 64)
		err = g.Triples(bg, storage.DefaultLookup, ch)
		for t := range ch {
			got = append(got, model.KeyTriple(t))
		}
	case "forsubj":
		ch := make(chan *triple.Triple, 64)
		err = g.TriplesForSubject(bg, real[0].Subject(), storage.DefaultLookup, ch)
		for t := range ch {
			got = append(got, model.KeyTriple(t))
		}
	default: // objects of (s0, p0): observed as the triples 0 (and nothing else)
		ch := make(chan *triple.Object, 64)
		err = g.Objects(bg, real[0].Subject(), real[0].Predicate(), storage.DefaultLookup, ch)
		for o := range ch {
			if model.KeyObj(o) == model.KeyObj(real[0].Object()) {
				got = append(got, keys[0])
			} else {
				got = append(got, "unexpected object "+model.KeyObj(o))
			}
		}
	}
	var m uint8
	for _, k := range got {
		found := false
		for i, x := range keys {
			if x == k {
				if m&(1<<i) != 0 {
					return 0, fmt.Errorf("triple %s delivered twice", k)
				}
				m |= 1 << i
				found = true
			}
		}
		if !found {
			return 0, fmt.Errorf("lookup delivered %s which was never added", k)
		}
	}
	return m, err
}

// visibleMask: which universe members a lookup kind can see.
func visibleMask(kind string) uint8 {
	switch kind {
	case "triples":
		return 0b1111
	case "forsubj":
		return 0b0111 // subject /u<a>
	default:
		return 0b0001
	}
}

func runC07Program(p c07Program) (string, error) {
	uni := c07Universe()
	real := make([]*triple.Triple, len(uni))
	keys := make([]string, len(uni))
	for i, s := range uni {
		real[i] = s.MustTriple()
		keys[i] = s.Key()
	}
	old := runtime.GOMAXPROCS(p.Procs)
	defer runtime.GOMAXPROCS(old)
	bg := context.Background()
	st := memory.NewStore()
	g, err := st.NewGraph(bg, "?g")
	if err != nil {
		return "", err
	}
	names := []string{"?x", "?y"}
	for run := 0; run < p.Runs; run++ {
		// reset
		g.RemoveTriples(bg, real)
		for _, n := range names {
			st.DeleteGraph(bg, n)
		}
		var clock int64
		var mu sync.Mutex
		var events []c07Event
		var wg sync.WaitGroup
		start := make(chan struct{})
		for ti, ops := range p.Threads {
			wg.Add(1)
			go func(ti int, ops []c07Op) {
				defer wg.Done()
				<-start
				for oi, op := range ops {
					for k := 0; k < op.Pad+run%3; k++ {
						runtime.Gosched()
					}
					ev := c07Event{Thread: ti, Index: oi, Op: op}
					var batch []*triple.Triple
					for _, b := range op.Batch {
						batch = append(batch, real[b])
					}
					ev.Inv = atomic.AddInt64(&clock, 1)
					switch op.Kind {
					case "add":
						ev.Err = g.AddTriples(bg, batch) != nil
					case "rem":
						ev.Err = g.RemoveTriples(bg, batch) != nil
					case "exist":
						b, e := g.Exist(bg, real[op.T])
						ev.Bool, ev.Err = b, e != nil
					case "newgraph":
						_, e := st.NewGraph(bg, names[op.Name])
						ev.Err = e != nil
					case "delgraph":
						ev.Err = st.DeleteGraph(bg, names[op.Name]) != nil
					case "getgraph":
						_, e := st.Graph(bg, names[op.Name])
						ev.Err = e != nil
					case "names":
						ns, e := graphNames(st)
						ev.Err = e != nil
						for _, n := range ns {
							for i, x := range names {
								if x == n {
									ev.Set |= 1 << i
								}
							}
						}
					default:
						m, e := lookupMask(g, op.Kind, real, keys)
						ev.Set, ev.Err = m, e != nil
						if e != nil {
							ev.Bool = true
							mu.Lock()
							events = append(events, c07Event{Thread: -1, Op: c07Op{Kind: "lookup-error: " + e.Error()}})
							mu.Unlock()
						}
					}
					ev.Res = atomic.AddInt64(&clock, 1)
					mu.Lock()
					events = append(events, ev)
					mu.Unlock()
				}
			}(ti, ops)
		}
		done := make(chan struct{})
		go func() { wg.Wait(); close(done) }()
		close(start)
		select {
		case <-done:
		case <-time.After(10 * time.Second):
			// a program of at most 16 operations takes microseconds; but a time bound alone is
			// no proof on a busy machine, so wait on, and report with the stacks of the stuck goroutines
			select {
			case <-done:
			case <-time.After(35 * time.Second):
				buf := make([]byte, 1<<18)
				buf = buf[:runtime.Stack(buf, true)]
				stuck, blocked, busy := "", 0, 0
				for _, blk := range strings.Split(string(buf), "\n\n") {
					if !strings.Contains(blk, "runC07Program.func") || strings.Contains(blk, "runtime.Stack") {
						continue
					}
					head := firstLines(blk, 1)
					if strings.Contains(head, "[running") || strings.Contains(head, "[runnable") {
						busy++
						continue
					}
					blocked++
					if strings.Contains(blk, "badwolf/storage") {
						stuck += " || " + strings.ReplaceAll(firstLines(blk, 7), "\n", " <- ")
					}
				}
				if busy > 0 || blocked == 0 {
					// still computing after 45 s: a starved process, not a deadlock
					return "", fmt.Errorf("inconclusive-slow: the program did not finish within 45 s but %d of its goroutines are runnable", busy)
				}
				return "", fmt.Errorf("deadlock: the program did not finish within 45 s (run %d): all %d remaining goroutines of the program are blocked; inside the store:%s", run, blocked, stuck)
			}
		}
		for _, e := range events {
			if e.Thread == -1 {
				return describeHistory(events), fmt.Errorf("%s", e.Op.Kind)
			}
		}
		if ok, why := linearizable(events, p.Store); !ok {
			return describeHistory(events), fmt.Errorf("history (run %d, GOMAXPROCS %d) has no sequential explanation: %s", run, p.Procs, why)
		}
	}
	return "", nil
}

func describeHistory(evs []c07Event) string {
	sort.Slice(evs, func(i, j int) bool { return evs[i].Inv < evs[j].Inv })
	var sb strings.Builder
	for _, e := range evs {
		if e.Thread < 0 {
			continue
		}
		fmt.Fprintf(&sb, "[t%d inv=%d res=%d %s", e.Thread, e.Inv, e.Res, e.Op.Kind)
		switch e.Op.Kind {
		case "add", "rem":
			fmt.Fprintf(&sb, "%v", e.Op.Batch)
		case "exist":
			fmt.Fprintf(&sb, "(%d)=%v", e.Op.T, e.Bool)
		case "newgraph", "delgraph", "getgraph":
			fmt.Fprintf(&sb, "(%d) err=%v", e.Op.Name, e.Err)
		default:
			fmt.Fprintf(&sb, "=%04b", e.Set)
		}
		sb.WriteString("] ")
	}
	return sb.String()
}

// linearizable searches for a witness order (Wing-Gong with memoisation).
// AddTriples is one atomic step, RemoveTriples(b) is |b| single-triple steps in
// batch order anywhere inside the call interval, reads are atomic.
func linearizable(evs []c07Event, storeLevel bool) (bool, string) {
	type item struct {
		ev   int
		step int // for rem: index into the batch
		last bool
	}
	var items []item
	for i, e := range evs {
		if e.Op.Kind == "rem" {
			for s := range e.Op.Batch {
				items = append(items, item{i, s, s == len(e.Op.Batch)-1})
			}
		} else {
			items = append(items, item{i, 0, true})
		}
	}
	n := len(items)
	if n > 62 {
		return true, ""
	}
	type key struct {
		done  uint64
		state uint8
	}
	seen := map[key]bool{}
	var search func(done uint64, state uint8) bool
	search = func(done uint64, state uint8) bool {
		if done == uint64(1)<<n-1 {
			return true
		}
		k := key{done, state}
		if seen[k] {
			return false
		}
		seen[k] = true
		// an operation is "completed" when all its items are done
		for i := 0; i < n; i++ {
			if done&(1<<i) != 0 {
				continue
			}
			it := items[i]
			e := evs[it.ev]
			// steps of one call in order
			if it.step > 0 && done&(1<<(i-1)) == 0 {
				continue
			}
			// real time: no other unfinished operation responded before this one was invoked
			ok := true
			for j := 0; j < n && ok; j++ {
				if done&(1<<j) != 0 || items[j].ev == it.ev {
					continue
				}
				if evs[items[j].ev].Res < e.Inv {
					ok = false
				}
			}
			if !ok {
				continue
			}
			ns := state
			valid := true
			switch e.Op.Kind {
			case "add":
				for _, b := range e.Op.Batch {
					ns |= 1 << b
				}
				valid = !e.Err
			case "rem":
				ns &^= 1 << e.Op.Batch[it.step]
				valid = !e.Err
			case "exist":
				valid = !e.Err && e.Bool == (state&(1<<e.Op.T) != 0)
			case "newgraph":
				exists := state&(1<<e.Op.Name) != 0
				valid = e.Err == exists
				if !exists {
					ns |= 1 << e.Op.Name
				}
			case "delgraph":
				exists := state&(1<<e.Op.Name) != 0
				valid = e.Err == !exists
				ns &^= 1 << e.Op.Name
			case "getgraph":
				valid = e.Err == (state&(1<<e.Op.Name) == 0)
			case "names":
				valid = !e.Err && e.Set == state
			default:
				valid = !e.Err && e.Set == state&visibleMask(e.Op.Kind)
			}
			if !valid {
				continue
			}
			if search(done|1<<i, ns) {
				return true
			}
		}
		return false
	}
	if search(0, 0) {
		return true, ""
	}
	return false, "no order of the single-triple updates and whole lookups consistent with real time produces the observed results"
}

func init() {
	isolate.Register("c07prog", func(req []byte) []byte {
		var p c07Program
		if err := jsonUnmarshal(req, &p); err != nil {
			return jsonMarshal(map[string]string{"err": "bad request"})
		}
		hist, err := runC07Program(p)
		if err != nil {
			return jsonMarshal(map[string]string{"violation": err.Error(), "history": hist})
		}
		return jsonMarshal(map[string]string{})
	})
}

func firstLines(s string, n int) string {
	ls := strings.Split(s, "\n")
	if len(ls) > n {
		ls = ls[:n]
	}
	return strings.Join(ls, "\n")
}

// checkC07Program runs the program. A deadlock is reported when, 45 s after the start of a
// program that takes microseconds, every remaining goroutine of the program is blocked (stack
// states); a program that is merely slow on a busy machine is counted and skipped.
func checkC07Program(ctx *pbt.Ctx, p c07Program) error {
	err := checkC07ProgramOnce(ctx, p)
	if err != nil && strings.Contains(err.Error(), "inconclusive-slow") {
		ctx.Label("slow-not-deadlocked(skipped)")
		return nil
	}
	return err
}

func checkC07ProgramOnce(ctx *pbt.Ctx, p c07Program) error {
	var resp map[string]string
	o, err := isolate.CallJSON("c07prog", p, &resp, 100*time.Second)
	if err != nil {
		return fmt.Errorf("infrastructure: %v", err)
	}
	if o.Crashed {
		return fmt.Errorf("the process died running the concurrent program: %s", lastLines(o.Stderr, 14))
	}
	if o.Hung {
		return fmt.Errorf("the concurrent program did not finish within 100 s (deadlock): %s", lastLines(o.Stderr, 14))
	}
	if resp["err"] != "" {
		return fmt.Errorf("infrastructure: %s", resp["err"])
	}
	if v := resp["violation"]; v != "" {
		return fmt.Errorf("%s\n history: %s", v, resp["history"])
	}
	writes, overlapPossible := 0, len(p.Threads) >= 2
	for _, th := range p.Threads {
		for _, op := range th {
			switch op.Kind {
			case "add", "rem", "newgraph", "delgraph":
				writes++
			}
		}
	}
	if writes > 0 && overlapPossible {
		ctx.Nontrivial()
	}
	if p.Store {
		ctx.Label("store-level")
	} else {
		ctx.Label("graph-level")
	}
	ctx.Labelf("threads:%d", len(p.Threads))
	return nil
}

func TestC07(t *testing.T) {
	pbt.Run(t, "C07", "TestC07", genC07Program, checkC07Program)
}

// ---- 2. randomised stress (run with the race detector in the thorough tier) ----

type c07Stress struct {
	Goroutines int    `json:"goroutines"`
	Ops        int    `json:"ops"`
	Seed       int    `json:"seed"`
	Opts       string `json:"opts"` // shared-latest shared-default shared-window private
	BQL        bool   `json:"bql,omitempty"`
}

func genC07Stress(t *rapid.T) c07Stress {
	return c07Stress{
		Goroutines: 8 + gen.Uniform(t, 25, "goroutines"),
		Ops:        100 + gen.Uniform(t, 400, "ops"),
		Seed:       gen.Uniform(t, 1000000, "seed"),
		Opts:       gen.Pick(t, []string{"shared-latest", "shared-latest", "shared-default", "shared-window", "private"}, "opts"),
		BQL:        gen.Maybe(t, 40, "bql"),
	}
}

func runC07Stress(c c07Stress) (overlaps int64, err error) {
	u := genLookupUniverseFixed()
	real := make([]*triple.Triple, len(u.Triples))
	for i, s := range u.Triples {
		real[i] = s.MustTriple()
	}
	calls := u.allCalls()
	bg := context.Background()
	st := memory.NewStore()
	g, _ := st.NewGraph(bg, "?g0")
	g.AddTriples(bg, real[:len(real)/2])
	shared := &storage.LookupOptions{}
	switch c.Opts {
	case "shared-latest":
		shared = &storage.LookupOptions{LatestAnchor: true}
	case "shared-default":
		shared = storage.DefaultLookup
	case "shared-window":
		lo := time.Unix(bq.BaseSec-10, 0)
		shared = &storage.LookupOptions{LowerAnchor: &lo, MaxElements: 3}
	}
	before := shared.String()
	var firstErr atomic.Value
	fail := func(format string, a ...interface{}) {
		firstErr.CompareAndSwap(nil, fmt.Sprintf(format, a...))
	}
	var writers, readOverlap int64
	var wg sync.WaitGroup
	for gi := 0; gi < c.Goroutines; gi++ {
		wg.Add(1)
		go func(gi int) {
			defer wg.Done()
			defer func() {
				if r := recover(); r != nil {
					fail("panic in goroutine %d: %v", gi, r)
				}
			}()
			x := uint64(c.Seed)*2654435761 + uint64(gi)*40503 + 1
			next := func(n int) int {
				x ^= x << 13
				x ^= x >> 7
				x ^= x << 17
				return int(x % uint64(n))
			}
			for i := 0; i < c.Ops; i++ {
				switch k := next(10); {
				case k < 2:
					atomic.AddInt64(&writers, 1)
					b := []*triple.Triple{real[next(len(real))], real[next(len(real))]}
					if e := g.AddTriples(bg, b); e != nil {
						fail("AddTriples failed: %v", e)
					}
					atomic.AddInt64(&writers, -1)
				case k < 4:
					atomic.AddInt64(&writers, 1)
					if e := g.RemoveTriples(bg, []*triple.Triple{real[next(len(real))]}); e != nil {
						fail("RemoveTriples failed: %v", e)
					}
					atomic.AddInt64(&writers, -1)
				case k < 5:
					if _, e := g.Exist(bg, real[next(len(real))]); e != nil {
						fail("Exist failed: %v", e)
					}
				case k < 6 && c.BQL:
					var text string
					switch next(4) {
					case 0:
						text = "select ?s, ?p, ?o from ?g0 where { ?s ?p ?o . ?o ?p2 ?o2 };"
					case 1:
						text = "insert data into ?g0 { /u<a> \"knows\"@[] /u<z> };"
					case 2:
						text = "delete data from ?g0 { /u<a> \"knows\"@[] /u<z> };"
					default:
						text = "select ?s, count(?o) as ?n from ?g0 where { ?s \"p\"@[?t] ?o } group by ?s order by ?n;"
					}
					res, _ := execBQL(bg, text, st, next(3), 1+next(3))
					if res.Panic != "" {
						fail("BQL %q panicked: %s", text, res.Panic)
					}
					if res.Stage != "ok" {
						fail("BQL %q failed while other goroutines use the store: %s %s", text, res.Stage, res.Err)
					}
				default:
					call := calls[next(len(calls))]
					lo := shared
					if c.Opts == "private" {
						lo = &storage.LookupOptions{LatestAnchor: next(2) == 0}
					}
					if atomic.LoadInt64(&writers) > 0 {
						atomic.AddInt64(&readOverlap, 1)
					}
					r := callLookup(g, call, lo)
					if r.Panicked != nil {
						fail("%s panicked: %v", describeCall(call), r.Panicked)
					}
					if r.Err != nil {
						fail("%s with options %s failed although its sequential contract cannot produce an error: %v", describeCall(call), before, r.Err)
					}
					if !r.Closed {
						fail("%s returned without closing its channel", describeCall(call))
					}
				}
			}
		}(gi)
	}
	done := make(chan struct{})
	go func() { wg.Wait(); close(done) }()
	select {
	case <-done:
	case <-time.After(60 * time.Second):
		return readOverlap, fmt.Errorf("deadlock: stress run did not finish within 60 s")
	}
	if v := firstErr.Load(); v != nil {
		return readOverlap, fmt.Errorf("%s", v.(string))
	}
	if after := shared.String(); after != before {
		return readOverlap, fmt.Errorf("the shared lookup options were modified: %s -> %s", before, after)
	}
	return readOverlap, nil
}

// genLookupUniverseFixed is a deterministic C02-style vocabulary.
func genLookupUniverseFixed() lookupUniverse {
	var u lookupUniverse
	u.Subjects = []model.NodeSpec{{Type: "/u", ID: "a"}, {Type: "/u", ID: "b"}, {Type: "/t", ID: "a"}}
	base := bq.BaseSec
	for _, id := range []string{"p", "q"} {
		for _, a := range []*model.TimeSpec{nil, tsp(base, 0, 0), tsp(base, 0, 3600), tsp(base+86400, 500000000, 0)} {
			u.Preds = append(u.Preds, model.PredSpec{ID: id, Anchor: a})
		}
	}
	for i := range u.Subjects {
		n := u.Subjects[i]
		u.Objects = append(u.Objects, model.ObjSpec{N: &n})
	}
	u.Objects = append(u.Objects, model.ObjSpec{L: &model.LitSpec{Kind: "int64", I: 1}}, model.ObjSpec{P: &model.PredSpec{ID: "p", Anchor: tsp(base, 0, 0)}})
	for si, s := range u.Subjects {
		for pi, p := range u.Preds {
			o := u.Objects[(si+pi)%len(u.Objects)]
			u.Triples = append(u.Triples, model.TripleSpec{S: s, P: p, O: o})
		}
	}
	return u
}

func init() {
	isolate.Register("c07stress", func(req []byte) []byte {
		var c c07Stress
		if err := jsonUnmarshal(req, &c); err != nil {
			return jsonMarshal(map[string]interface{}{"err": "bad request"})
		}
		ov, err := runC07Stress(c)
		if err != nil {
			return jsonMarshal(map[string]interface{}{"violation": err.Error(), "overlaps": ov})
		}
		return jsonMarshal(map[string]interface{}{"overlaps": ov})
	})
}

func checkC07Stress(ctx *pbt.Ctx, c c07Stress) error {
	var resp map[string]interface{}
	o, err := isolate.CallJSON("c07stress", c, &resp, 120*time.Second)
	if err != nil {
		return fmt.Errorf("infrastructure: %v", err)
	}
	if o.Crashed {
		if strings.Contains(o.Stderr, "DATA RACE") {
			return fmt.Errorf("data race reported by the race detector (%d goroutines, options %s, bql=%v):\n%s", c.Goroutines, c.Opts, c.BQL, raceExcerpt(o.Stderr))
		}
		return fmt.Errorf("the process died under concurrent use: %s", lastLines(o.Stderr, 16))
	}
	if o.Hung {
		return fmt.Errorf("deadlock: no completion within 120 s: %s", lastLines(o.Stderr, 16))
	}
	if v, _ := resp["violation"].(string); v != "" {
		return fmt.Errorf("%s (goroutines %d, ops %d, options %s, bql %v)", v, c.Goroutines, c.Ops, c.Opts, c.BQL)
	}
	ov, _ := resp["overlaps"].(float64)
	pbt.AddExtra("TestC07Stress", "reads_overlapping_a_write", int(ov))
	if ov >= 1000 {
		ctx.Nontrivial()
	}
	ctx.Label("opts:" + c.Opts)
	if c.BQL {
		ctx.Label("with-bql")
	}
	return nil
}

func raceExcerpt(s string) string {
	i := strings.Index(s, "WARNING: DATA RACE")
	if i < 0 {
		return lastLines(s, 20)
	}
	ex := s[i:]
	if len(ex) > 2500 {
		ex = ex[:2500]
	}
	return ex
}

func TestC07Stress(t *testing.T) {
	pbt.Run(t, "C07", "TestC07Stress", genC07Stress, checkC07Stress)
}

// ---- 3. channel discipline: closed exactly once, also on error ----

// c07WriteWait bounds an uncontended single-triple write; far above anything load can explain.
const c07WriteWait = 60 * time.Second

func checkC07Channels(ctx *pbt.Ctx, c c09Case) error {
	bg := context.Background()
	st := memory.NewStore()
	if len(c.Qs)%2 == 1 {
		// the same discipline through the memoizing wrapper, which is a store too
		st = memoization.New(st)
		ctx.Label("through-memoizer")
	}
	g, _ := st.NewGraph(bg, "?g")
	var all []*triple.Triple
	for _, s := range c.U.Triples {
		all = append(all, s.MustTriple())
	}
	g.AddTriples(bg, all)
	for qi, q := range c.Qs {
		lo := q.Opt.build()
		before := lo.String()
		r := callLookup(g, q.Call, lo)
		desc := fmt.Sprintf("query %d %s with %s", qi, describeCall(q.Call), describeOpt(q.Opt))
		if r.Panicked != nil {
			return fmt.Errorf("%s panicked (a second close of the channel panics): %v", desc, r.Panicked)
		}
		if !r.Closed {
			return fmt.Errorf("%s returned (err=%v) without closing its channel", desc, r.Err)
		}
		if after := lo.String(); after != before {
			return fmt.Errorf("%s modified the lookup options passed to it: %s -> %s", desc, before, after)
		}
		if fresh := q.Opt.build(); !reflect.DeepEqual(fresh, lo) {
			return fmt.Errorf("%s modified the lookup options value passed to it (it no longer equals a value built the same way): %#v vs %#v", desc, *lo, *fresh)
		}
		if r.Err != nil {
			ctx.Label("lookup-error")
		}
		// no deadlock: whatever the lookup returned, it left no lock behind, so a
		// writer (and a reader queued behind it) completes
		if len(all) == 0 {
			continue
		}
		done := make(chan error, 1)
		go func() {
			if err := g.AddTriples(bg, all[:1]); err != nil {
				done <- err
				return
			}
			_, err := g.Exist(bg, all[0])
			done <- err
		}()
		select {
		case err := <-done:
			if err != nil {
				return fmt.Errorf("%s: re-adding a stored triple afterwards fails: %v", desc, err)
			}
		case <-time.After(c07WriteWait):
			return fmt.Errorf("%s returned err=%v; an AddTriples+Exist on the same graph issued afterwards has not returned within %v (deadlock: a lock was left held)", desc, r.Err, c07WriteWait)
		}
	}
	// a lookup entered with a context that is already cancelled still closes its channel
	// exactly once and leaves no lock behind
	for qi, q := range c.Qs {
		if qi >= 3 {
			break
		}
		cctx, cancel := context.WithCancel(bg)
		cancel()
		lo := q.Opt.build()
		r := callLookupWith(cctx, g, q.Call, lo)
		desc := fmt.Sprintf("query %d %s with %s and an already cancelled context", qi, describeCall(q.Call), describeOpt(q.Opt))
		if r.Panicked != nil {
			return fmt.Errorf("%s panicked: %v", desc, r.Panicked)
		}
		if !r.Closed {
			return fmt.Errorf("%s returned (err=%v) without closing its channel", desc, r.Err)
		}
		ctx.Label("cancelled-context")
	}
	// graphs can be created, fetched, listed and dropped while a lookup is streaming: the
	// consumer takes one element, works on the store, and only then drains the rest
	if len(all) >= 2 {
		if err := c07StoreOpsWhileStreaming(st, g, all); err != nil {
			return err
		}
		ctx.Label("store-ops-while-streaming")
	}
	ctx.Nontrivial()
	return nil
}

// c07StoreOpsWhileStreaming: Triples() on graph ?g with an unbuffered channel; after the first
// element every store-level operation, including dropping ?g itself and creating it again, must
// return; then the rest is drained and the lookup must return with the channel closed.
func c07StoreOpsWhileStreaming(st storage.Store, g storage.Graph, all []*triple.Triple) error {
	bg := context.Background()
	ch := make(chan *triple.Triple)
	ret := make(chan error, 1)
	go func() { ret <- g.Triples(bg, storage.DefaultLookup, ch) }()
	select {
	case _, ok := <-ch:
		if !ok {
			return nil // nothing stored under this handle any more
		}
	case <-time.After(c07WriteWait):
		return fmt.Errorf("Triples() delivered nothing within %v on a graph holding %d triples", c07WriteWait, len(all))
	}
	ops := []struct {
		name string
		f    func() error
	}{
		{"Graph(?g)", func() error { _, err := st.Graph(bg, "?g"); return err }},
		{"NewGraph(?other)", func() error { _, err := st.NewGraph(bg, "?other"); return err }},
		{"GraphNames", func() error { _, err := graphNames(st); return err }},
		{"DeleteGraph(?other)", func() error { return st.DeleteGraph(bg, "?other") }},
		{"DeleteGraph(?g)", func() error { return st.DeleteGraph(bg, "?g") }},
		{"NewGraph(?g)", func() error { _, err := st.NewGraph(bg, "?g"); return err }},
	}
	for _, op := range ops {
		done := make(chan error, 1)
		go func() { done <- op.f() }()
		select {
		case err := <-done:
			if err != nil {
				return fmt.Errorf("%s while a lookup on ?g is streaming failed: %v", op.name, err)
			}
		case <-time.After(c07WriteWait):
			return fmt.Errorf("deadlock: %s has not returned within %v while a lookup on ?g is streaming (its consumer took one element and drains the rest afterwards)", op.name, c07WriteWait)
		}
	}
	for range ch {
	}
	select {
	case <-ret:
	case <-time.After(c07WriteWait):
		return fmt.Errorf("deadlock: Triples() has not returned within %v after its channel was drained", c07WriteWait)
	}
	return nil
}

func genC07Channels(t *rapid.T) c09Case {
	if gen.Maybe(t, 50, "odd") {
		return genC09Smoke(t)
	}
	return genC09(t)
}

func TestC07Channels(t *testing.T) {
	pbt.Run(t, "C07", "TestC07Channels", genC07Channels, checkC07Channels)
}
