package props

// C20 — storage driver failures surface as errors: never success, hang or leak.

import (
	"fmt"
	"strings"
	"testing"

	"verif/harness/bq"
	"verif/harness/gen"
	"verif/harness/model"
	"verif/harness/pbt"

	"pgregory.net/rapid"
)

type c20Case struct {
	Data bq.Dataset `json:"data"`
	Text string     `json:"text"`
	Kind string     `json:"kind"`
	Chan int        `json:"chan,omitempty"`
	Bulk int        `json:"bulk,omitempty"`
	// Only, when set, restricts the enumeration to one (k, elems) pair (stored replays)
	Only *[2]int `json:"only,omitempty"`
	// Procs > 0: GOMAXPROCS for the runs (a small value makes the per-row fan-out of a join
	// exceed the number of workers already for a handful of rows)
	Procs int `json:"procs,omitempty"`
	// OnlyPersist restricts a stored replay to the outage mode
	OnlyPersist bool `json:"only_persist,omitempty"`
}

func genC20(t *rapid.T) c20Case {
	u := c04Universe()
	var c c20Case
	c.Data = bq.Dataset{}
	pool := make([]model.TripleSpec, 4+gen.Uniform(t, 6, "npool"))
	for i := range pool {
		pool[i] = u.GenTriple(t, "pool")
	}
	names := bq.GraphNames[:1+gen.Uniform(t, 3, "ng")]
	for _, g := range names {
		seen := map[string]bool{}
		c.Data[g] = []model.TripleSpec{}
		for i, n := 0, 1+gen.Uniform(t, 6, "nt"); i < n; i++ {
			tr := gen.Pick(t, pool, "t")
			if !seen[tr.Key()] {
				seen[tr.Key()] = true
				c.Data[g] = append(c.Data[g], tr)
			}
		}
	}
	g := &bq.QGen{T: t, U: u, Data: pool}
	some := func(label string, max int) []string {
		n := 1 + gen.Uniform(t, max, label+"n")
		seen := map[string]bool{}
		var out []string
		for i := 0; i < n; i++ {
			x := gen.Pick(t, names, label)
			if !seen[x] {
				seen[x] = true
				out = append(out, x)
			}
		}
		return out
	}
	c.Procs = gen.Pick(t, []int{0, 0, 1, 2, 2}, "procs")
	c.Chan = gen.Pick(t, []int{0, 0, 2}, "chan")
	c.Bulk = gen.Pick(t, []int{0, 1, 2, 10}, "bulk")
	switch k := gen.Uniform(t, 100, "kind"); {
	case k < 45:
		c.Kind = "select"
		var q bq.Query
		q.From = some("from", 2)
		var visible []model.TripleSpec
		for _, cd := range bq.Candidates(c.Data, q.From) {
			visible = append(visible, cd.Triple)
		}
		g.Data = visible
		n := 1 + gen.Uniform(t, 4, "nclauses")
		for i := 0; i < n; i++ {
			q.Clauses = append(q.Clauses, g.GenClauseMixed(fmt.Sprintf("c%d", i), bq.ClauseOpts{}))
		}
		if gen.Maybe(t, 30, "optional") {
			q.Clauses = g.GenOptionalize(q.Clauses, 50)
		}
		q.Clauses, _ = avoidObjIDReuse(q.Clauses)
		all := bq.AllBindings(q.Clauses)
		if len(all) > 0 && gen.Maybe(t, 25, "grouped") {
			q.Proj = []bq.Proj{{Binding: all[0]}, {Binding: all[len(all)-1], Alias: "?cnt", Op: "count"}}
			q.GroupBy = []string{all[0]}
		} else {
			q.Proj = g.GenProjection(all)
		}
		c.Text = q.String()
	case k < 60:
		c.Kind = "insert"
		d := bq.DataStmt{Graphs: some("into", 3)}
		for i, n := 0, 1+gen.Uniform(t, 4, "nd"); i < n; i++ {
			d.Triples = append(d.Triples, gen.Pick(t, pool, "dt"))
		}
		c.Text = d.String()
	case k < 70:
		c.Kind = "delete"
		d := bq.DataStmt{Delete: true, Graphs: some("from", 3)}
		for i, n := 0, 1+gen.Uniform(t, 4, "nd"); i < n; i++ {
			d.Triples = append(d.Triples, gen.Pick(t, pool, "dt"))
		}
		c.Text = d.String()
	case k < 90:
		cc := genC04Construct(t, g, u)
		cc.From, cc.Into = some("cfrom", 2), some("cinto", 2)
		c.Kind = "construct"
		if cc.De {
			c.Kind = "deconstruct"
		}
		c.Text = cc.String()
	case k < 94:
		c.Kind = "create"
		c.Text = bq.GraphStmt{Graphs: []string{"?new1", "?new2"}[:1+gen.Uniform(t, 2, "nnew")]}.String()
	case k < 97:
		c.Kind = "drop"
		c.Text = bq.GraphStmt{Drop: true, Graphs: some("drop", 2)}.String()
	default:
		c.Kind = "show"
		c.Text = "show graphs;"
	}
	return c
}

func checkC20(ctx *pbt.Ctx, c c20Case) error {
	ctx.Label("kind:" + c.Kind)
	graphs := datasetGraphs(c.Data)
	run := RunSpec{Text: c.Text, ChanSize: c.Chan, BulkSize: c.Bulk, Procs: c.Procs}
	rec, err := runBQL(BQLReq{Graphs: graphs, Runs: []RunSpec{run}, Fault: &FaultSpec{Record: true}})
	if err != nil {
		return err
	}
	if rec.Crashed || rec.Hung {
		ctx.Label("fault-free-run-crashes(C08)")
		return nil
	}
	r0 := rec.Resp.Results[0]
	if r0.Stage != "ok" || r0.Panic != "" {
		ctx.Label("fault-free-run-fails")
		return nil // only statements that succeed without faults are in the corpus
	}
	n := len(r0.Calls)
	if n == 0 {
		ctx.Label("no-driver-call")
		return nil
	}
	faults, late := 0, 0
	for k := 0; k < n; k++ {
		elems := []int{0}
		if e := r0.CallElems[k]; e >= 1 {
			for _, j := range []int{1, e / 2, e - 1, e} {
				dup := false
				for _, x := range elems {
					if x == j {
						dup = true
					}
				}
				if !dup && j >= 1 {
					elems = append(elems, j)
				}
			}
		}
		type mode struct {
			j       int
			persist bool
		}
		var modes []mode
		for _, j := range elems {
			modes = append(modes, mode{j, false})
		}
		// the outage: this call fails and so does every later one
		modes = append(modes, mode{0, true})
		if len(elems) > 1 {
			modes = append(modes, mode{elems[1], true})
		}
		for _, md := range modes {
			j := md.j
			if c.Only != nil && (c.Only[0] != k || c.Only[1] != j || c.OnlyPersist != md.persist) {
				continue
			}
			out, err := runBQL(BQLReq{Graphs: graphs, Runs: []RunSpec{run}, Leak: true, Fault: &FaultSpec{K: k, Elems: j, Persist: md.persist}})
			if err != nil {
				return err
			}
			desc := fmt.Sprintf("%q with driver call #%d (%s in the fault-free run) failing after %d delivered element(s)", c.Text, k, r0.Calls[k], j)
			if md.persist {
				desc += " and every later driver call failing too"
				ctx.Label("mode:outage")
			}
			if c.Procs > 0 {
				desc += fmt.Sprintf(" (GOMAXPROCS %d)", c.Procs)
			}
			if out.Crashed {
				return fmt.Errorf("%s: the process died: %s", desc, lastLines(out.Stderr, 12))
			}
			if out.Hung {
				return fmt.Errorf("%s: Execute did not return within %v nor, run again in a fresh worker, within %v: %s", desc, bqlHang, bqlHangConfirm, lastLines(out.Stderr, 12))
			}
			res := out.Resp.Results[0]
			if !res.FaultFired {
				ctx.Label("fault-not-fired(order varied)")
				continue
			}
			faults++
			if k > 0 || j > 0 {
				late++
			}
			ctx.Label("method:" + strings.SplitN(res.FaultCall, "@", 2)[0])
			if j > 0 {
				ctx.Label("mode:after-elements")
			} else {
				ctx.Label("mode:before-any-element")
			}
			if res.Panic != "" {
				return fmt.Errorf("%s: panic: %s", desc, res.Panic)
			}
			if res.Stage == "ok" {
				what := fmt.Sprintf("a table with %d rows", len(res.Rows))
				if res.NilTable {
					what = "(nil, nil)"
				}
				return fmt.Errorf("%s (the failing call was %s): Execute returned %s instead of an error", desc, res.FaultCall, what)
			}
			if res.Err == "" {
				return fmt.Errorf("%s: stopped at stage %s without an error", desc, res.Stage)
			}
			if len(res.Leaked) > 0 {
				return fmt.Errorf("%s: goroutines are still running after Execute returned %q: %s", desc, res.Err, strings.Join(res.Leaked, " || "))
			}
		}
	}
	pbt.AddExtra("TestC20", "faults_injected", faults)
	if late > 0 {
		ctx.Nontrivial()
	}
	ctx.Sample(map[string]interface{}{"text": c.Text, "driver_calls": r0.Calls, "faults_injected": faults})
	return nil
}

func TestC20(t *testing.T) {
	pbt.Run(t, "C20", "TestC20", genC20, checkC20)
}
