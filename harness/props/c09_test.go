package props

// C09 — lookup options: time window, filter functions and paging select as defined.

import (
	"context"
	"fmt"
	"strings"
	"testing"

	"verif/harness/model"
	"verif/harness/pbt"

	"github.com/google/badwolf/storage/memory"
	"github.com/google/badwolf/triple"
	"pgregory.net/rapid"
)

type c09Query struct {
	Call LookupCall `json:"call"`
	Opt  LookupSpec `json:"opt"`
}

type c09Case struct {
	U       lookupUniverse `json:"u"`
	Removed []int          `json:"removed,omitempty"`
	Qs      []c09Query     `json:"qs"`
}

func genWindowBound(t *rapid.T, u lookupUniverse, label string) *model.TimeSpec {
	var anchors []model.TimeSpec
	for _, p := range u.Preds {
		if p.Anchor != nil {
			anchors = append(anchors, *p.Anchor)
		}
	}
	for _, o := range u.Objects {
		if o.P != nil && o.P.Anchor != nil {
			anchors = append(anchors, *o.P.Anchor)
		}
	}
	if len(anchors) == 0 || rapid.IntRange(0, 9).Draw(t, label+"free") == 0 {
		ts := model.TimeSpec{Sec: rapid.Int64Range(1000000000, 1600000000).Draw(t, label+"sec")}
		return &ts
	}
	a := rapid.SampledFrom(anchors).Draw(t, label+"a")
	switch rapid.IntRange(0, 4).Draw(t, label+"d") {
	case 0:
		a.Nsec--
	case 1:
		a.Nsec++
	case 2:
		a.Off = rapid.SampledFrom([]int{0, 7200, -3600}).Draw(t, label+"off")
	}
	if a.Nsec < 0 {
		a.Nsec += 1000000000
		a.Sec--
	}
	if a.Nsec >= 1000000000 {
		a.Nsec -= 1000000000
		a.Sec++
	}
	return &a
}

func genLookupSpec(t *rapid.T, u lookupUniverse) LookupSpec {
	var l LookupSpec
	if rapid.IntRange(0, 2).Draw(t, "haslower") == 0 {
		l.Lower = genWindowBound(t, u, "lo")
	}
	if rapid.IntRange(0, 2).Draw(t, "hasupper") == 0 {
		l.Upper = genWindowBound(t, u, "up")
	}
	switch rapid.IntRange(0, 7).Draw(t, "filter") {
	case 0, 1, 2:
	case 3:
		l.Latest = true
	default:
		l.FOp = rapid.SampledFrom([]string{"latest", "isImmutable", "isTemporal"}).Draw(t, "fop")
		l.FField = rapid.SampledFrom([]string{"predicate", "object"}).Draw(t, "ffield")
	}
	if rapid.IntRange(0, 1).Draw(t, "paged") == 0 {
		l.Max = rapid.IntRange(1, 5).Draw(t, "max")
		l.Offset = rapid.IntRange(0, 6).Draw(t, "offset")
	}
	return l
}

func genC09(t *rapid.T) c09Case {
	var c c09Case
	c.U = genLookupUniverse(t)
	c.Removed = rapid.SliceOfN(rapid.IntRange(0, len(c.U.Triples)-1), 0, 3).Draw(t, "removed")
	n := rapid.IntRange(5, 60).Draw(t, "nq")
	for i := 0; i < n; i++ {
		c.Qs = append(c.Qs, c09Query{Call: genLookupCall(t, c.U), Opt: genLookupSpec(t, c.U)})
	}
	return c
}

func checkC09(ctx *pbt.Ctx, c c09Case) error {
	bg := context.Background()
	st := memory.NewStore()
	g, err := st.NewGraph(bg, "?g")
	if err != nil {
		return err
	}
	set := map[string]model.TripleSpec{}
	var all []*triple.Triple
	for _, s := range c.U.Triples {
		all = append(all, s.MustTriple())
		set[s.Key()] = s
	}
	if err := g.AddTriples(bg, all); err != nil {
		return err
	}
	var rem []*triple.Triple
	for _, i := range c.Removed {
		j := i % len(all)
		rem = append(rem, all[j])
		delete(set, c.U.Triples[j].Key())
	}
	if err := g.RemoveTriples(bg, rem); err != nil {
		return err
	}
	stored := modelList(set)
	nontrivial := false
	for qi, q := range c.Qs {
		desc := fmt.Sprintf("query %d: %s with %+v", qi, describeCall(q.Call), describeOpt(q.Opt))
		unp := q.Opt
		unp.Max, unp.Offset = 0, 0
		lo := unp.build()
		before := lo.String()
		r1 := callLookup(g, q.Call, lo)
		if r1.Panicked != nil {
			return fmt.Errorf("%s panicked: %v", desc, r1.Panicked)
		}
		if r1.Err != nil {
			return fmt.Errorf("%s failed: %v", desc, r1.Err)
		}
		if !r1.Closed {
			return fmt.Errorf("%s returned without closing its channel", desc)
		}
		if after := lo.String(); after != before {
			return fmt.Errorf("%s modified the options passed to it: %s -> %s", desc, before, after)
		}
		cands := refCandidates(stored, q.Call)
		sel := refOptions(cands, q.Opt)
		want := project(q.Call, sel)
		if !sameMultiset(want, r1.Keys) {
			// matcher of the zone finding: a predicate argument, a filter, and a candidate
			// whose anchor is the same instant in another zone than the argument's
			if q.Call.P != nil && q.Call.P.Anchor != nil && (q.Opt.FOp != "" || q.Opt.Latest) {
				zone := false
				for _, t := range cands {
					if t.P.Anchor != nil && t.P.Anchor.Off != q.Call.P.Anchor.Off {
						zone = true
					}
				}
				if zone && ctx.Known("KF-C09-FILTER-ZONE") {
					continue
				}
			}
			return fmt.Errorf("%s: unpaged result differs from the definition: %s", desc, diffMultiset(want, r1.Keys))
		}
		r2 := callLookup(g, q.Call, unp.build())
		if strings.Join(r1.Keys, "\x00") != strings.Join(r2.Keys, "\x00") {
			return fmt.Errorf("%s: two unpaged runs return different sequences: %v vs %v", desc, r1.Keys, r2.Keys)
		}
		defRes := project(q.Call, cands)
		changed := !sameMultiset(defRes, r1.Keys)
		kinds, anchorsPerID := map[bool]bool{}, map[string]map[string]bool{}
		for _, t := range cands {
			kinds[t.P.Anchor == nil] = true
			if t.P.Anchor != nil {
				if anchorsPerID[t.P.ID] == nil {
					anchorsPerID[t.P.ID] = map[string]bool{}
				}
				anchorsPerID[t.P.ID][t.P.Anchor.Key()] = true
			}
		}
		rich := len(kinds) == 2
		for _, m := range anchorsPerID {
			if len(m) >= 2 {
				rich = true
			}
		}
		if q.Opt.Max > 0 {
			n, k := q.Opt.Max, q.Opt.Offset
			rp := callLookup(g, q.Call, q.Opt.build())
			if rp.Panicked != nil || rp.Err != nil || !rp.Closed {
				return fmt.Errorf("%s (paged): panic=%v err=%v closed=%v", desc, rp.Panicked, rp.Err, rp.Closed)
			}
			lo, hi := k*n, (k+1)*n
			if lo > len(r1.Keys) {
				lo = len(r1.Keys)
			}
			if hi > len(r1.Keys) {
				hi = len(r1.Keys)
			}
			wantPage := r1.Keys[lo:hi]
			if strings.Join(wantPage, "\x00") != strings.Join(rp.Keys, "\x00") {
				return fmt.Errorf("%s: page (n=%d,k=%d) = %v, but block %d of the unpaged result %v is %v", desc, n, k, rp.Keys, k, r1.Keys, wantPage)
			}
			if len(r1.Keys) > n && rich {
				nontrivial = true
				ctx.Label("multi-page")
			}
		}
		if changed && rich {
			nontrivial = true
			ctx.Label("option-changes-result")
		}
		if q.Opt.FOp != "" {
			ctx.Label("filter:" + q.Opt.FOp + "/" + q.Opt.FField)
		}
		if q.Opt.Latest {
			ctx.Label("LatestAnchor")
		}
		if q.Opt.Lower != nil || q.Opt.Upper != nil {
			ctx.Label("window")
		}
	}
	if nontrivial {
		ctx.Nontrivial()
	}
	return nil
}

func describeOpt(l LookupSpec) string {
	var parts []string
	if l.Lower != nil {
		parts = append(parts, "lower="+l.Lower.Time().Format("2006-01-02T15:04:05.999999999Z07:00"))
	}
	if l.Upper != nil {
		parts = append(parts, "upper="+l.Upper.Time().Format("2006-01-02T15:04:05.999999999Z07:00"))
	}
	if l.Latest {
		parts = append(parts, "LatestAnchor")
	}
	if l.FOp != "" {
		parts = append(parts, "filter="+l.FOp+"("+l.FField+")")
	}
	if l.Max != 0 || l.Offset != 0 {
		parts = append(parts, fmt.Sprintf("max=%d offset=%d", l.Max, l.Offset))
	}
	return "{" + strings.Join(parts, " ") + "}"
}

func TestC09(t *testing.T) {
	pbt.Run(t, "C09", "TestC09", genC09, checkC09)
}

// ---- outside the statement: smoke only (terminates, channel closed) ----

func genC09Smoke(t *rapid.T) c09Case {
	var c c09Case
	c.U = genLookupUniverse(t)
	n := rapid.IntRange(3, 20).Draw(t, "nq")
	for i := 0; i < n; i++ {
		l := genLookupSpec(t, c.U)
		switch rapid.IntRange(0, 3).Draw(t, "odd") {
		case 0:
			l.FOp, l.FField = rapid.SampledFrom([]string{"latest", "isImmutable", "isTemporal"}).Draw(t, "fop"), "subject"
		case 1:
			l.Latest = true
			l.FOp, l.FField = "isTemporal", "predicate"
		case 2:
			l.Max, l.Offset = rapid.IntRange(-3, 0).Draw(t, "negmax"), rapid.IntRange(-3, 3).Draw(t, "negoff")
		default:
			l.FOp, l.FField = "unknown", "predicate"
		}
		c.Qs = append(c.Qs, c09Query{Call: genLookupCall(t, c.U), Opt: l})
	}
	return c
}

func checkC09Smoke(ctx *pbt.Ctx, c c09Case) error {
	bg := context.Background()
	st := memory.NewStore()
	g, _ := st.NewGraph(bg, "?g")
	var all []*triple.Triple
	for _, s := range c.U.Triples {
		all = append(all, s.MustTriple())
	}
	g.AddTriples(bg, all)
	for qi, q := range c.Qs {
		r := callLookup(g, q.Call, q.Opt.build())
		if r.Panicked != nil {
			return fmt.Errorf("query %d %s %s panicked: %v", qi, describeCall(q.Call), describeOpt(q.Opt), r.Panicked)
		}
		if !r.Closed {
			return fmt.Errorf("query %d %s %s returned (err=%v) without closing its channel", qi, describeCall(q.Call), describeOpt(q.Opt), r.Err)
		}
		if r.Err != nil {
			ctx.Label("error-returned")
		}
	}
	ctx.Nontrivial()
	return nil
}

func TestC09Smoke(t *testing.T) {
	pbt.Run(t, "C09", "TestC09Smoke", genC09Smoke, checkC09Smoke)
}
