package props

// Shared machinery for the storage-level properties (C01, C02, C09, C19):
// serialisable lookup descriptions, the call adapter and the reference semantics.

import (
	"context"
	"fmt"
	"sort"
	"strings"
	"time"

	"verif/harness/gen"
	"verif/harness/model"

	"github.com/google/badwolf/bql/planner/filter"
	"github.com/google/badwolf/storage"
	"github.com/google/badwolf/triple"
	"github.com/google/badwolf/triple/node"
	"github.com/google/badwolf/triple/predicate"
	"pgregory.net/rapid"
)

// LookupSpec is a serialisable storage.LookupOptions.
type LookupSpec struct {
	Max    int             `json:"max,omitempty"`
	Offset int             `json:"offset,omitempty"`
	Lower  *model.TimeSpec `json:"lower,omitempty"`
	Upper  *model.TimeSpec `json:"upper,omitempty"`
	Latest bool            `json:"latest,omitempty"`
	FOp    string          `json:"fop,omitempty"`    // latest isImmutable isTemporal
	FField string          `json:"ffield,omitempty"` // predicate object subject
}

func (l LookupSpec) build() *storage.LookupOptions {
	lo := &storage.LookupOptions{MaxElements: l.Max, Offset: l.Offset, LatestAnchor: l.Latest}
	if l.Lower != nil {
		t := l.Lower.Time()
		lo.LowerAnchor = &t
	}
	if l.Upper != nil {
		t := l.Upper.Time()
		lo.UpperAnchor = &t
	}
	if l.FOp != "" {
		fo := &filter.StorageOptions{}
		switch l.FOp {
		case "latest":
			fo.Operation = filter.Latest
		case "isImmutable":
			fo.Operation = filter.IsImmutable
		case "isTemporal":
			fo.Operation = filter.IsTemporal
		}
		switch l.FField {
		case "predicate":
			fo.Field = filter.PredicateField
		case "object":
			fo.Field = filter.ObjectField
		case "subject":
			fo.Field = filter.SubjectField
		}
		lo.FilterOptions = fo
	}
	return lo
}

// applyTo sets the fields of an existing options value one by one (the way a caller
// that owns the value changes it between two lookups), never by whole-struct copy.
func (l LookupSpec) applyTo(lo *storage.LookupOptions) {
	f := l.build()
	lo.MaxElements = f.MaxElements
	lo.Offset = f.Offset
	lo.LowerAnchor = f.LowerAnchor
	lo.UpperAnchor = f.UpperAnchor
	lo.LatestAnchor = f.LatestAnchor
	lo.FilterOptions = f.FilterOptions
}

func (l LookupSpec) isDefault() bool {
	return l.Max == 0 && l.Offset == 0 && l.Lower == nil && l.Upper == nil && !l.Latest && l.FOp == ""
}

// LookupCall names one of the ten lookups (plus Triples) and its fixed components.
type LookupCall struct {
	M string          `json:"m"`
	S *model.NodeSpec `json:"s,omitempty"`
	P *model.PredSpec `json:"p,omitempty"`
	O *model.ObjSpec  `json:"o,omitempty"`
}

var lookupMethods = []string{"Objects", "Subjects", "PredicatesForSubject", "PredicatesForObject", "PredicatesForSubjectAndObject",
	"TriplesForSubject", "TriplesForPredicate", "TriplesForObject", "TriplesForSubjectAndPredicate", "TriplesForPredicateAndObject", "Triples"}

func methodNeeds(m string) (s, p, o bool) {
	switch m {
	case "Objects", "TriplesForSubjectAndPredicate":
		return true, true, false
	case "Subjects", "TriplesForPredicateAndObject":
		return false, true, true
	case "PredicatesForSubject", "TriplesForSubject":
		return true, false, false
	case "PredicatesForObject", "TriplesForObject":
		return false, false, true
	case "PredicatesForSubjectAndObject":
		return true, false, true
	case "TriplesForPredicate":
		return false, true, false
	}
	return false, false, false
}

// lookupResult is what a lookup delivered.
type lookupResult struct {
	Keys      []string // projected canonical keys in arrival order
	Err       error
	Closed    bool // channel observed closed after return
	Panicked  interface{}
	OptsAfter string
}

const lookupChanCap = 4096

// callLookup runs the lookup synchronously with a buffered channel large enough
// for every universe used here (the in-memory driver sends from the calling
// goroutine), then drains it.
func callLookup(g storage.Graph, c LookupCall, lo *storage.LookupOptions) lookupResult {
	return callLookupWith(context.Background(), g, c, lo)
}

func callLookupWith(bg context.Context, g storage.Graph, c LookupCall, lo *storage.LookupOptions) (res lookupResult) {
	return callLookupCap(bg, g, c, lo, lookupChanCap)
}

// callLookupCancelled starts the lookup with a result channel of capacity k and nobody
// reading, lets it run until it has delivered k elements (or finished), cancels the context
// and then drains. What the cancelled lookup delivered is not examined; ok=false means the
// call did not return within the bound after the cancellation.
func callLookupCancelled(g storage.Graph, c LookupCall, lo *storage.LookupOptions, k int) (ok bool) {
	ctx, cancel := context.WithCancel(context.Background())
	defer cancel()
	done := make(chan struct{})
	go func() {
		defer close(done)
		callLookupCap(ctx, g, c, lo, k)
	}()
	select {
	case <-done:
		return true
	case <-time.After(3 * time.Millisecond):
	}
	cancel()
	select {
	case <-done:
		return true
	case <-time.After(20 * time.Second):
		return false
	}
}

// callLookupCap is callLookupWith with a result channel of the given capacity (the call
// blocks once the channel is full: only for callers that cancel the context).
func callLookupCap(bg context.Context, g storage.Graph, c LookupCall, lo *storage.LookupOptions, lookupChanCap int) (res lookupResult) {
	var s *node.Node
	var p *predicate.Predicate
	var o *triple.Object
	if c.S != nil {
		s, _ = c.S.Build()
	}
	if c.P != nil {
		p, _ = c.P.Build()
	}
	if c.O != nil {
		o, _ = c.O.Build()
	}
	defer func() {
		if r := recover(); r != nil {
			res.Panicked = r
		}
	}()
	switch c.M {
	case "Objects":
		ch := make(chan *triple.Object, lookupChanCap)
		res.Err = g.Objects(bg, s, p, lo, ch)
		res.Closed = drain(ch, func(v *triple.Object) { res.Keys = append(res.Keys, model.KeyObj(v)) })
	case "Subjects":
		ch := make(chan *node.Node, lookupChanCap)
		res.Err = g.Subjects(bg, p, o, lo, ch)
		res.Closed = drain(ch, func(v *node.Node) { res.Keys = append(res.Keys, model.KeyNode(v)) })
	case "PredicatesForSubject", "PredicatesForObject", "PredicatesForSubjectAndObject":
		ch := make(chan *predicate.Predicate, lookupChanCap)
		switch c.M {
		case "PredicatesForSubject":
			res.Err = g.PredicatesForSubject(bg, s, lo, ch)
		case "PredicatesForObject":
			res.Err = g.PredicatesForObject(bg, o, lo, ch)
		default:
			res.Err = g.PredicatesForSubjectAndObject(bg, s, o, lo, ch)
		}
		res.Closed = drain(ch, func(v *predicate.Predicate) { res.Keys = append(res.Keys, model.KeyPred(v)) })
	default:
		ch := make(chan *triple.Triple, lookupChanCap)
		switch c.M {
		case "TriplesForSubject":
			res.Err = g.TriplesForSubject(bg, s, lo, ch)
		case "TriplesForPredicate":
			res.Err = g.TriplesForPredicate(bg, p, lo, ch)
		case "TriplesForObject":
			res.Err = g.TriplesForObject(bg, o, lo, ch)
		case "TriplesForSubjectAndPredicate":
			res.Err = g.TriplesForSubjectAndPredicate(bg, s, p, lo, ch)
		case "TriplesForPredicateAndObject":
			res.Err = g.TriplesForPredicateAndObject(bg, p, o, lo, ch)
		case "Triples":
			res.Err = g.Triples(bg, lo, ch)
		default:
			panic("unknown lookup " + c.M)
		}
		res.Closed = drain(ch, func(v *triple.Triple) { res.Keys = append(res.Keys, model.KeyTriple(v)) })
	}
	return res
}

// drain reads everything buffered; returns true iff the channel is closed.
func drain[T any](ch chan T, f func(T)) bool {
	for {
		select {
		case v, ok := <-ch:
			if !ok {
				return true
			}
			f(v)
		default:
			return false
		}
	}
}

// ---- reference semantics ----

// refCandidates: stored triples whose fixed components equal the given ones (C02).
func refCandidates(stored []model.TripleSpec, c LookupCall) []model.TripleSpec {
	var out []model.TripleSpec
	for _, t := range stored {
		if c.S != nil && t.S.Key() != c.S.Key() {
			continue
		}
		if c.P != nil && t.P.Key() != c.P.Key() {
			continue
		}
		if c.O != nil && t.O.Key() != c.O.Key() {
			continue
		}
		out = append(out, t)
	}
	return out
}

func project(c LookupCall, ts []model.TripleSpec) []string {
	out := make([]string, 0, len(ts))
	for _, t := range ts {
		switch c.M {
		case "Objects":
			out = append(out, t.O.Key())
		case "Subjects":
			out = append(out, t.S.Key())
		case "PredicatesForSubject", "PredicatesForObject", "PredicatesForSubjectAndObject":
			out = append(out, t.P.Key())
		default:
			out = append(out, t.Key())
		}
	}
	return out
}

func instant(ts model.TimeSpec) time.Time { return time.Unix(ts.Sec, int64(ts.Nsec)) }

// refOptions applies window then filter (C09) to candidate triples.
func refOptions(cands []model.TripleSpec, l LookupSpec) []model.TripleSpec {
	var win []model.TripleSpec
	for _, t := range cands {
		if t.P.Anchor != nil {
			a := instant(*t.P.Anchor)
			if l.Lower != nil && a.Before(instant(*l.Lower)) {
				continue
			}
			if l.Upper != nil && a.After(instant(*l.Upper)) {
				continue
			}
		}
		win = append(win, t)
	}
	op, field := l.FOp, l.FField
	if l.Latest {
		op, field = "latest", "predicate"
	}
	if op == "" {
		return win
	}
	fieldPred := func(t model.TripleSpec) *model.PredSpec {
		if field == "predicate" {
			return &t.P
		}
		return t.O.P // nil unless predicate-valued object
	}
	var out []model.TripleSpec
	switch op {
	case "isImmutable", "isTemporal":
		for _, t := range win {
			p := fieldPred(t)
			if p == nil {
				continue
			}
			if (p.Anchor == nil) == (op == "isImmutable") {
				out = append(out, t)
			}
		}
	case "latest":
		best := map[string]time.Time{}
		for _, t := range win {
			p := fieldPred(t)
			if p == nil || p.Anchor == nil {
				continue
			}
			a := instant(*p.Anchor)
			if b, ok := best[p.ID]; !ok || a.After(b) {
				best[p.ID] = a
			}
		}
		for _, t := range win {
			p := fieldPred(t)
			if p == nil || p.Anchor == nil {
				continue
			}
			if instant(*p.Anchor).Equal(best[p.ID]) {
				out = append(out, t)
			}
		}
	}
	return out
}

func sortedCopy(s []string) []string {
	c := append([]string{}, s...)
	sort.Strings(c)
	return c
}

func sameMultiset(a, b []string) bool {
	if len(a) != len(b) {
		return false
	}
	x, y := sortedCopy(a), sortedCopy(b)
	for i := range x {
		if x[i] != y[i] {
			return false
		}
	}
	return true
}

func diffMultiset(want, got []string) string {
	cnt := map[string]int{}
	for _, k := range want {
		cnt[k]++
	}
	for _, k := range got {
		cnt[k]--
	}
	var miss, extra []string
	for k, n := range cnt {
		for ; n > 0; n-- {
			miss = append(miss, k)
		}
		for ; n < 0; n++ {
			extra = append(extra, k)
		}
	}
	sort.Strings(miss)
	sort.Strings(extra)
	return fmt.Sprintf("missing %v, not expected %v", miss, extra)
}

// ---- universes for lookup properties ----

// lookupUniverse is a small vocabulary whose index buckets collide on purpose.
type lookupUniverse struct {
	Subjects []model.NodeSpec   `json:"subjects"`
	Preds    []model.PredSpec   `json:"preds"`
	Objects  []model.ObjSpec    `json:"objects"`
	Triples  []model.TripleSpec `json:"triples"`
}

func tsp(sec int64, nsec, off int) *model.TimeSpec {
	return &model.TimeSpec{Sec: sec, Nsec: nsec, Off: off}
}

func genLookupUniverse(t *rapid.T) lookupUniverse {
	var u lookupUniverse
	// subjects: same id under unrelated types, under a type and its sub-type (covariant
	// types: /u/x is a /u), and different ids under one type; 2-4 of them in a drawn order
	subjPool := []model.NodeSpec{{Type: "/u", ID: "a"}, {Type: "/u", ID: "b"}, {Type: "/t", ID: "a"}, {Type: "/u/x", ID: "a"},
		{Type: "/u/x", ID: "c"}, {Type: "/u/x/y", ID: "a"}, {Type: "/u/x", ID: "b"}}
	ns := 2 + gen.Uniform(t, 3, "nsubj")
	if gen.Maybe(t, 50, "classic-subjects") {
		u.Subjects = append(u.Subjects, subjPool[:ns]...)
	} else {
		rest := append([]model.NodeSpec{}, subjPool...)
		for len(u.Subjects) < ns {
			i := gen.Uniform(t, len(rest), "subj")
			u.Subjects = append(u.Subjects, rest[i])
			rest = append(rest[:i], rest[i+1:]...)
		}
	}
	// anchors: three instants, the first also in another zone, the second ±1ns
	// instants: ordinary ones, and two outside the range an int64 of nanoseconds can hold
	// (years 1336 and 2381; RFC 3339 anchors cover the years 0000-9999)
	base := rapid.SampledFrom([]int64{1136214245, 1500000000, -9000000000, -20000000000, 13000000000}).Draw(t, "base")
	anchors := []*model.TimeSpec{
		nil,
		tsp(base, 0, 0),
		tsp(base, 0, 3600),
		tsp(base+86400, 500000000, -8*3600),
		tsp(base+86400, 500000001, 0),
		tsp(base-86400*365, 0, 0),
	}
	ids := []string{"p", "q", "knows"}
	nid := rapid.IntRange(1, 3).Draw(t, "nid")
	for _, id := range ids[:nid] {
		for _, a := range anchors {
			if a != nil && rapid.IntRange(0, 3).Draw(t, "dropanchor") == 0 {
				continue
			}
			u.Preds = append(u.Preds, model.PredSpec{ID: id, Anchor: a})
		}
	}
	// objects: subject nodes, another node, literals, predicate objects (immutable + temporal, sharing ids)
	for i := range u.Subjects {
		n := u.Subjects[i]
		u.Objects = append(u.Objects, model.ObjSpec{N: &n})
	}
	extra := []model.ObjSpec{
		{N: &model.NodeSpec{Type: "/u", ID: "z"}},
		{L: &model.LitSpec{Kind: "int64", I: 1}},
		{L: &model.LitSpec{Kind: "text", S: "1"}},
		{L: &model.LitSpec{Kind: "bool", B: true}},
		{L: &model.LitSpec{Kind: "float64", F: 0x3ff0000000000000}},
		{L: &model.LitSpec{Kind: "float64", F: 0x3ff000001ad7f29b}}, // 1.0000001
		{L: &model.LitSpec{Kind: "float64", F: 0x3ff0000035afe535}}, // 1.0000002
		{L: &model.LitSpec{Kind: "int64", I: 1 << 55}},
		{L: &model.LitSpec{Kind: "int64", I: 1<<55 + 1}},
		// texts that spell predicate ids of the universe (a predicate's partial UUID hashes its id,
		// a text literal's UUID its text)
		{L: &model.LitSpec{Kind: "text", S: "p"}},
		{L: &model.LitSpec{Kind: "text", S: "knows"}},
		{P: &model.PredSpec{ID: "p"}},
		{P: &model.PredSpec{ID: "p", Anchor: tsp(base, 0, 0)}},
		{P: &model.PredSpec{ID: "p", Anchor: tsp(base+86400, 500000000, 0)}},
		{P: &model.PredSpec{ID: "r", Anchor: tsp(base, 0, 3600)}},
		{P: &model.PredSpec{ID: "r", Anchor: tsp(base-5, 0, 0)}},
	}
	for _, e := range extra {
		if gen.Maybe(t, 40, "keepobj") {
			u.Objects = append(u.Objects, e)
		}
	}
	nt := rapid.IntRange(3, 14).Draw(t, "ntriples")
	for i := 0; i < nt; i++ {
		u.Triples = append(u.Triples, model.TripleSpec{
			S: rapid.SampledFrom(u.Subjects).Draw(t, "ts"),
			P: rapid.SampledFrom(u.Preds).Draw(t, "tp"),
			O: rapid.SampledFrom(u.Objects).Draw(t, "to"),
		})
	}
	return u
}

// allCalls enumerates every lookup with every argument combination over the
// universe's components plus one non-stored value per position.
func (u lookupUniverse) allCalls() []LookupCall {
	subj := append(append([]model.NodeSpec{}, u.Subjects...), model.NodeSpec{Type: "/u", ID: "absent"})
	preds := append(append([]model.PredSpec{}, u.Preds...), model.PredSpec{ID: "absent"}, model.PredSpec{ID: "p", Anchor: tsp(42, 0, 0)})
	objs := append(append([]model.ObjSpec{}, u.Objects...), model.ObjSpec{L: &model.LitSpec{Kind: "text", S: "absent"}})
	var out []LookupCall
	for _, m := range lookupMethods {
		ns, np, no := methodNeeds(m)
		ss, ps, os := []*model.NodeSpec{nil}, []*model.PredSpec{nil}, []*model.ObjSpec{nil}
		if ns {
			ss = nil
			for i := range subj {
				ss = append(ss, &subj[i])
			}
		}
		if np {
			ps = nil
			for i := range preds {
				ps = append(ps, &preds[i])
			}
		}
		if no {
			os = nil
			for i := range objs {
				os = append(os, &objs[i])
			}
		}
		for _, s := range ss {
			for _, p := range ps {
				for _, o := range os {
					out = append(out, LookupCall{M: m, S: s, P: p, O: o})
				}
			}
		}
	}
	return out
}

func genLookupCall(t *rapid.T, u lookupUniverse) LookupCall {
	calls := u.allCalls()
	// choose the method first so that the many-argument methods do not dominate
	m := rapid.SampledFrom(lookupMethods).Draw(t, "method")
	var sub []LookupCall
	for _, c := range calls {
		if c.M == m {
			sub = append(sub, c)
		}
	}
	return rapid.SampledFrom(sub).Draw(t, "call")
}

func describeCall(c LookupCall) string {
	var parts []string
	if c.S != nil {
		parts = append(parts, "s="+c.S.Key())
	}
	if c.P != nil {
		parts = append(parts, "p="+c.P.Key())
	}
	if c.O != nil {
		parts = append(parts, "o="+c.O.Key())
	}
	return c.M + "(" + strings.Join(parts, ", ") + ")"
}

var _ = gen.Time
