package props

// C15 — text parsers return a well-formed value or an error for every input.

import (
	"bytes"
	"context"
	"fmt"
	"strings"
	"testing"
	"time"
	"unicode/utf8"

	"verif/harness/gen"
	"verif/harness/model"
	"verif/harness/pbt"

	bwio "github.com/google/badwolf/io"
	"github.com/google/badwolf/storage/memory"
	"github.com/google/badwolf/triple"
	"github.com/google/badwolf/triple/literal"
	"github.com/google/badwolf/triple/node"
	"github.com/google/badwolf/triple/predicate"
	"pgregory.net/rapid"
)

// "litb", "objb", "tripleb": the same parsers handed a bounded literal builder (texts and blobs of at most 3 bytes)
var c15Parsers = []string{"node", "pred", "lit", "litb", "obj", "objb", "triple", "tripleb"}

type c15Case struct {
	Parser string `json:"parser"`
	In     string `json:"in"`
	Src    string `json:"src,omitempty"`
}

func c15Parse(parser, s string) (v interface{}, err error, panicked interface{}) {
	defer func() {
		if r := recover(); r != nil {
			panicked = r
		}
	}()
	switch parser {
	case "node":
		v, err = node.Parse(s)
	case "pred":
		v, err = predicate.Parse(s)
	case "lit":
		v, err = literal.DefaultBuilder().Parse(s)
	case "litb":
		v, err = literal.NewBoundedBuilder(3).Parse(s)
	case "obj":
		v, err = triple.ParseObject(s, literal.DefaultBuilder())
	case "objb":
		v, err = triple.ParseObject(s, literal.NewBoundedBuilder(3))
	case "triple":
		v, err = triple.Parse(s, literal.DefaultBuilder())
	case "tripleb":
		v, err = triple.Parse(s, literal.NewBoundedBuilder(3))
	default:
		panic("unknown parser " + parser)
	}
	return
}

// wellFormed checks an accepted value: all components present, printable, UUID defined.
func wellFormed(v interface{}) (key string, text string, err error) {
	defer func() {
		if r := recover(); r != nil {
			err = fmt.Errorf("accepted value is malformed (panic while inspecting it): %v", r)
		}
	}()
	sp := specOfReal(v)
	key = sp.key()
	text = stringOf(v)
	if strings.Contains(text, "@@@INVALID") || strings.Contains(key, "<nil") || strings.Contains(key, "<empty") || strings.Contains(key, "<noanchor") {
		return key, text, fmt.Errorf("accepted value has missing components: key %s text %q", key, text)
	}
	v.(uuider).UUID()
	return key, text, nil
}

func checkC15(ctx *pbt.Ctx, c c15Case) error {
	ctx.Label("parser:" + c.Parser)
	if c.Src != "" {
		ctx.Label("src:" + c.Src)
	}
	v, err, pan := c15Parse(c.Parser, c.In)
	if pan != nil {
		return fmt.Errorf("%s parser panicked on %q: %v", c.Parser, c.In, pan)
	}
	trim := strings.TrimSpace(c.In)
	if trim != "" && strings.ContainsAny(trim[:1], "/_\"") {
		ctx.Nontrivial()
	}
	if err != nil {
		ctx.Label("rejected")
		return nil
	}
	if isNilValue(v) {
		return fmt.Errorf("%s parser returned (nil, nil) for %q", c.Parser, c.In)
	}
	ctx.Label("accepted")
	ctx.Nontrivial()
	key, text, werr := wellFormed(v)
	if werr != nil {
		return fmt.Errorf("%s parser accepted %q: %v", c.Parser, c.In, werr)
	}
	v2, err2, pan2 := c15Parse(c.Parser, text)
	if pan2 != nil {
		return fmt.Errorf("%s parser panicked on its own output %q (from input %q): %v", c.Parser, text, c.In, pan2)
	}
	if err2 != nil {
		return fmt.Errorf("%s parser accepted %q as %s but rejects its printed form %q: %v", c.Parser, c.In, key, text, err2)
	}
	if isNilValue(v2) {
		return fmt.Errorf("%s parser returned (nil, nil) for its own output %q", c.Parser, text)
	}
	key2, _, werr2 := wellFormed(v2)
	if werr2 != nil {
		return werr2
	}
	if key2 != key {
		return fmt.Errorf("%s parser: %q accepted as %s, printed %q, which parses as the different value %s", c.Parser, c.In, key, text, key2)
	}
	return nil
}

// ---- random strings and mutations of valid texts ----

var c15Alphabet = []rune("\"@[]<>/_:^t1, \t\\.-Tz+0eaxlbo\n世")
var c15Fragments = []string{"\"^^type:", "type:", "text", "bool", "int64", "float64", "blob", "\"@[", "]", "@[]", "[]", "[1 2]", "_:", "/t<", ">", "\t", "2006-01-02T15:04:05Z", "true", "^^", "\"\"", "TEXT", "Int64", "1e400", "-", "9223372036854775808", "256", "\\\"", "\\", "\\\\\"", "\""}

func mutateText(t *rapid.T, s string) string {
	r := []rune(s)
	switch rapid.IntRange(0, 8).Draw(t, "mut") {
	case 7, 8: // write one rune (preferably a quote or backslash-escaped quote) as a \u escape, as quoted ids accept
		if len(r) == 0 {
			return s
		}
		var quotes []int
		for i := 0; i+1 < len(r); i++ {
			if r[i] == '\\' && r[i+1] == '"' {
				quotes = append(quotes, i)
			}
		}
		if len(quotes) > 0 && rapid.IntRange(0, 3).Draw(t, "esc-quote") > 0 {
			i := rapid.SampledFrom(quotes).Draw(t, "escq")
			return string(r[:i]) + "\\u0022" + string(r[i+2:])
		}
		i := rapid.IntRange(0, len(r)-1).Draw(t, "esci")
		if r[i] > 0xffff {
			return s
		}
		return string(r[:i]) + fmt.Sprintf("\\u%04x", r[i]) + string(r[i+1:])
	case 0: // truncate
		if len(r) == 0 {
			return s
		}
		return string(r[:rapid.IntRange(0, len(r)-1).Draw(t, "cut")])
	case 1: // drop prefix
		if len(r) == 0 {
			return s
		}
		return string(r[rapid.IntRange(1, len(r)).Draw(t, "from"):])
	case 2: // delete one rune
		if len(r) == 0 {
			return s
		}
		i := rapid.IntRange(0, len(r)-1).Draw(t, "del")
		return string(append(append([]rune{}, r[:i]...), r[i+1:]...))
	case 3: // duplicate a span
		if len(r) == 0 {
			return s
		}
		i := rapid.IntRange(0, len(r)-1).Draw(t, "dupi")
		j := rapid.IntRange(i, min(len(r), i+4)).Draw(t, "dupj")
		out := append([]rune{}, r[:j]...)
		out = append(out, r[i:j]...)
		return string(append(out, r[j:]...))
	case 4: // inject a delimiter fragment
		i := rapid.IntRange(0, len(r)).Draw(t, "inj")
		f := rapid.SampledFrom(c15Fragments).Draw(t, "frag")
		return string(r[:i]) + f + string(r[i:])
	case 5: // change case of type names
		k := rapid.SampledFrom([]string{"text", "bool", "int64", "float64", "blob", "type"}).Draw(t, "tn")
		return strings.Replace(s, k, strings.ToUpper(k), 1)
	default: // replace one rune
		if len(r) == 0 {
			return s
		}
		i := rapid.IntRange(0, len(r)-1).Draw(t, "rep")
		r2 := append([]rune{}, r...)
		r2[i] = rapid.SampledFrom(c15Alphabet).Draw(t, "ch")
		return string(r2)
	}
}

func genC15(t *rapid.T) c15Case {
	c := c15Case{Parser: rapid.SampledFrom(c15Parsers).Draw(t, "parser")}
	switch rapid.IntRange(0, 9).Draw(t, "src") {
	case 0, 1:
		c.Src = "alphabet"
		c.In = string(rapid.SliceOfN(rapid.SampledFrom(c15Alphabet), 0, 12).Draw(t, "runes"))
	case 2:
		c.Src = "fragments"
		c.In = strings.Join(rapid.SliceOfN(rapid.SampledFrom(c15Fragments), 0, 6).Draw(t, "frags"), "")
	case 3:
		c.Src = "unicode"
		c.In = rapid.String().Draw(t, "any")
		if !utf8.ValidString(c.In) {
			c.In = strings.ToValidUTF8(c.In, "?")
		}
	default:
		c.Src = "mutated-valid"
		var base string
		switch c.Parser {
		case "node":
			n, _ := gen.Node().Draw(t, "n").Build()
			base = n.String()
			if rapid.IntRange(0, 5).Draw(t, "blank") == 0 {
				base = "_:" + rapid.SampledFrom([]string{"v", "x1", "b"}).Draw(t, "bl")
			}
		case "pred":
			p, _ := gen.Pred().Draw(t, "p").Build()
			base = p.String()
		case "lit", "litb":
			l, _ := gen.Lit(true).Draw(t, "l").Build()
			base = l.String()
		case "obj", "objb":
			o, _ := gen.Obj(true).Draw(t, "o").Build()
			base = o.String()
		default:
			base = gen.Triple(true).Draw(t, "t").MustTriple().String()
		}
		n := rapid.IntRange(0, 2).Draw(t, "nmut")
		for i := 0; i < n; i++ {
			base = mutateText(t, base)
		}
		c.In = base
	}
	return c
}

// the parsers' property includes termination, and a case takes microseconds (milliseconds for
// the reader's 64 KiB lines): one evaluation running for 30 s is reported as "did not terminate"
const c15HangBound = 30 * time.Second

func TestC15(t *testing.T) {
	pbt.HangIsViolation(c15HangBound)
	pbt.Run(t, "C15", "TestC15", genC15, checkC15)
}

// ---- exhaustive small strings over the delimiter alphabet ----

var c15ExhAlphabet = []string{"\"", "@", "[", "]", "<", ">", "/", "_", ":", "^", "t", "1", ",", " ", "\\"}
var c15Suffixes = []string{"", "\"^^type:text", "\"^^type:blob", "\"^^type:int64", "\"^^type:bool", "\"^^type:float64", "\"^^type:x", "\"@[]", "\"@[2006-01-02T15:04:05Z]", ">"}

func TestC15Exh(t *testing.T) {
	pbt.HangIsViolation(c15HangBound)
	if pbt.ReplayPath() != "" {
		pbt.Run(t, "C15", "TestC15Exh", func(*rapid.T) c15Case { return c15Case{} }, checkC15)
		return
	}
	shard, nsh := pbt.Shard()
	maxLen := 4
	sufLen := 3
	if pbt.Thorough() {
		maxLen, sufLen = 6, 4
	}
	k := len(c15ExhAlphabet)
	idx := 0
	var rec func(prefix string, depth int)
	run := func(in string) {
		idx++
		if idx%nsh != shard {
			return
		}
		for _, p := range c15Parsers {
			pbt.Eval(t, "C15", "TestC15Exh", c15Case{Parser: p, In: in, Src: "exhaustive"}, checkC15)
		}
	}
	rec = func(prefix string, depth int) {
		run(prefix)
		if depth <= sufLen {
			for _, suf := range c15Suffixes[1:] {
				run(prefix + suf)
			}
		}
		if depth == maxLen {
			return
		}
		for i := 0; i < k; i++ {
			rec(prefix+c15ExhAlphabet[i], depth+1)
		}
	}
	rec("", 0)
	pbt.SetExhaustive("TestC15Exh")
	pbt.SetExtra("TestC15Exh", "max_len", maxLen)
}

// ---- the line-oriented graph reader ----

type c15Reader struct {
	Lines []string `json:"lines"`
	CRLF  bool     `json:"crlf,omitempty"`
}

func genC15Reader(t *rapid.T) c15Reader {
	n := rapid.IntRange(1, 8).Draw(t, "n")
	var c c15Reader
	c.CRLF = rapid.IntRange(0, 4).Draw(t, "crlf") == 0
	for i := 0; i < n; i++ {
		switch rapid.IntRange(0, 9).Draw(t, "kind") {
		case 0:
			c.Lines = append(c.Lines, rapid.SampledFrom([]string{"", "   ", "\t"}).Draw(t, "blank"))
		case 1:
			// malformed line: mutated valid triple or junk
			base := gen.Triple(false).Draw(t, "mt").MustTriple().String()
			base = mutateText(t, base)
			base = strings.NewReplacer("\n", " ", "\r", " ").Replace(base)
			c.Lines = append(c.Lines, base)
		case 2:
			tr := gen.Triple(false).Draw(t, "lt")
			l := model.LitSpec{Kind: "text", S: strings.Repeat("a", rapid.IntRange(65400, 66000).Draw(t, "len"))}
			tr.O = model.ObjSpec{L: &l}
			c.Lines = append(c.Lines, tr.MustTriple().String())
		default:
			s := gen.Triple(false).Draw(t, "vt").MustTriple().String()
			if rapid.IntRange(0, 5).Draw(t, "pad") == 0 {
				s = "  " + s + " \t"
			}
			c.Lines = append(c.Lines, s)
		}
	}
	return c
}

func checkC15Reader(ctx *pbt.Ctx, c c15Reader) error {
	bg := context.Background()
	sep := "\n"
	if c.CRLF {
		sep = "\r\n"
	}
	text := strings.Join(c.Lines, sep) + sep
	// reference: by the statement, "malformed" is what triple.Parse rejects on the trimmed line
	var wantKeys []string
	seen := map[string]bool{}
	wantCount := 0
	malformed := -1
	long := false
	for i, l := range c.Lines {
		tl := strings.TrimSpace(l)
		if tl == "" {
			continue
		}
		if len(l) > 65536 {
			long = true
		}
		v, err, pan := c15Parse("triple", tl)
		if pan != nil {
			return fmt.Errorf("triple.Parse panicked on line %q: %v", tl, pan)
		}
		if err != nil {
			malformed = i
			break
		}
		tr := v.(*triple.Triple)
		wantCount++
		k := model.KeyTriple(tr)
		if !seen[k] {
			seen[k] = true
			wantKeys = append(wantKeys, k)
		}
	}
	st := memory.NewStore()
	g, _ := st.NewGraph(bg, "?g")
	var n int
	var rerr error
	var pan interface{}
	func() {
		defer func() { pan = recover() }()
		n, rerr = bwio.ReadIntoGraph(bg, g, bytes.NewReader([]byte(text)), literal.DefaultBuilder())
	}()
	if pan != nil {
		return fmt.Errorf("ReadIntoGraph panicked: %v", pan)
	}
	got, err := listGraph(g)
	if err != nil {
		return err
	}
	if long {
		ctx.Label("long-line")
	}
	if malformed >= 0 {
		ctx.Label("malformed-line")
		if malformed > 0 {
			ctx.Nontrivial()
		}
	} else if wantCount >= 2 {
		ctx.Nontrivial()
	}
	if (rerr != nil) != (malformed >= 0) {
		return fmt.Errorf("reader error = %v but first malformed line index = %d (lines %d)", rerr, malformed, len(c.Lines))
	}
	if n != wantCount {
		return fmt.Errorf("reader reported %d triples, %d well-formed lines precede the first malformed one", n, wantCount)
	}
	// compare by the store's identity (the C06 collision findings may merge
	// distinct triples inside the store; that is not the reader's doing): every
	// loaded triple must be one of the expected lines and the reader must not have
	// loaded more distinct triples than expected lines
	wantSet := map[string]bool{}
	for _, k := range wantKeys {
		wantSet[k] = true
	}
	for _, k := range got {
		if !wantSet[k] {
			return fmt.Errorf("reader loaded a triple that is on no line before the first malformed one: %s", k)
		}
	}
	// all expected triples must exist
	for _, l := range c.Lines {
		tl := strings.TrimSpace(l)
		if tl == "" {
			continue
		}
		v, err, _ := c15Parse("triple", tl)
		if err != nil {
			break
		}
		ok, _ := g.Exist(bg, v.(*triple.Triple))
		if !ok {
			return fmt.Errorf("triple of line %q is missing from the graph after reading", truncate(tl, 200))
		}
	}
	ctx.Sample(map[string]interface{}{"lines": len(c.Lines), "first_malformed": malformed, "loaded": n, "long": long, "crlf": c.CRLF, "line0": truncate(c.Lines[0], 160)})
	return nil
}

func truncate(s string, n int) string {
	if len(s) > n {
		return s[:n] + "…"
	}
	return s
}

func TestC15Reader(t *testing.T) {
	pbt.HangIsViolation(c15HangBound)
	pbt.Run(t, "C15", "TestC15Reader", genC15Reader, checkC15Reader)
}
