package props

// C10 — OPTIONAL is a left outer join: it never removes rows.

import (
	"fmt"
	"sort"
	"strings"
	"testing"

	"verif/harness/bq"
	"verif/harness/gen"
	"verif/harness/model"
	"verif/harness/pbt"

	"pgregory.net/rapid"
)

type c10Case struct {
	Data      bq.Dataset  `json:"data"`
	From      []string    `json:"from"`
	Mandatory []bq.Clause `json:"mandatory"`
	Optional  []bq.Clause `json:"optional"`
	Global    *bq.Global  `json:"global,omitempty"`
	Excluded  []string    `json:"excluded,omitempty"`
	// Chained: a later OPTIONAL clause may use a binding that only an earlier OPTIONAL clause
	// introduces (and that is NULL for the rows that clause did not match). The statement does
	// not say what "agrees" means against such a NULL, so only "no solution of the preceding
	// pattern is removed or invented" is required of these cases.
	Chained bool `json:"chained,omitempty"`
	// Trailing: mandatory clauses written AFTER the optional ones. The pattern that precedes an
	// OPTIONAL clause is what is written before it; a clause after it joins the rows of the
	// outer join (a NULL joins nothing).
	Trailing []bq.Clause `json:"trailing,omitempty"`
	// BigLimit: the full query is run once more with LIMIT = the number of rows it returned,
	// which cannot change the answer
	BigLimit bool `json:"big_limit,omitempty"`
}

func (c c10Case) queries() (left, full bq.Query) {
	lb := bq.AllBindings(c.Mandatory)
	for _, b := range lb {
		left.Proj = append(left.Proj, bq.Proj{Binding: b})
	}
	left.From, left.Clauses, left.Global = c.From, c.Mandatory, c.Global
	all := append(append(append([]bq.Clause{}, c.Mandatory...), c.Optional...), c.Trailing...)
	for _, b := range bq.AllBindings(all) {
		full.Proj = append(full.Proj, bq.Proj{Binding: b})
	}
	full.From, full.Clauses, full.Global = c.From, all, c.Global
	return
}

func genC10(t *rapid.T) c10Case {
	u := bq.DefaultUniverse()
	d := u.GenDataset(t, 8)
	var c c10Case
	c.Data = d
	c.From = genFrom(t, d)
	var visible []model.TripleSpec
	for _, cd := range bq.Candidates(d, c.From) {
		visible = append(visible, cd.Triple)
	}
	g := &bq.QGen{T: t, U: u, Data: visible}
	nm := 1 + gen.Uniform(t, 3, "nmandatory")
	for i := 0; i < nm; i++ {
		// the mandatory part should mostly have solutions (C03 owns the other cases)
		if len(visible) > 0 && gen.Maybe(t, 93, "mfromdata") {
			c.Mandatory = append(c.Mandatory, g.GenClauseFrom(gen.Pick(t, visible, "mwitness"), fmt.Sprintf("m%d", i), bq.ClauseOpts{}))
		} else {
			c.Mandatory = append(c.Mandatory, g.GenClauseMixed(fmt.Sprintf("m%d", i), bq.ClauseOpts{}))
		}
	}
	no := 1 + gen.Uniform(t, 2, "noptional")
	ground := false
	mandatoryNames := map[string]bool{}
	for _, b := range bq.AllBindings(c.Mandatory) {
		mandatoryNames[b] = true
	}
	for i := 0; i < no; i++ {
		var oc bq.Clause
		switch gen.Uniform(t, 10, "okind") {
		case 0: // matches nothing at all
			oc = bq.Clause{S: bq.SPos{Binding: fmt.Sprintf("?n%d", i)}, P: bq.PPos{Pred: &model.PredSpec{ID: "nosuch"}}, O: bq.OPos{Binding: fmt.Sprintf("?m%d", i)}}
			if gen.Maybe(t, 50, "nshare") && len(c.Mandatory) > 0 {
				if bs := bq.AllBindings(c.Mandatory); len(bs) > 0 {
					oc.S.Binding = gen.Pick(t, bs, "nsb")
				}
			}
		case 1, 2: // fully specified, no alias: from a stored triple (temporal ones first) or a near miss
			var pool []model.TripleSpec
			for _, tr := range visible {
				if tr.P.Anchor != nil {
					pool = append(pool, tr)
				}
			}
			if len(pool) == 0 || gen.Maybe(t, 25, "ground-any") {
				pool = visible
			}
			if len(pool) == 0 {
				pool = []model.TripleSpec{u.GenTriple(t, "ground-free")}
			}
			tr := gen.Pick(t, pool, "ground")
			if gen.Maybe(t, 25, "ground-miss") {
				tr.S = gen.Pick(t, u.Nodes, "ground-s") // most likely not stored
			}
			oc = groundClause(tr)
			ground = true
		case 3: // introduces no new binding: a mandatory clause again, its predicate widened to an interval of the same id
			mc := gen.Pick(t, c.Mandatory, "echo-of")
			oc = bq.Clause{S: bq.SPos{Node: mc.S.Node, Binding: mc.S.Binding}, O: bq.OPos{Node: mc.O.Node, Lit: mc.O.Lit, Pred: mc.O.Pred, Binding: mc.O.Binding}}
			id := ""
			switch {
			case mc.P.Pred != nil:
				id = mc.P.Pred.ID
			case mc.P.AnchorID != "":
				id = mc.P.AnchorID
			case mc.P.Bound != nil:
				id = mc.P.Bound.ID
			}
			if oc.O.Node == nil && oc.O.Lit == nil && oc.O.Pred == nil && oc.O.Binding == "" {
				oc.O.Binding = fmt.Sprintf("?e%d", i)
			}
			if id == "" {
				oc.P = bq.PPos{Binding: mc.P.Binding} // the same predicate binding: at most one match
			} else {
				b := &bq.Bound{ID: id}
				a := gen.Pick(t, u.Anchors, "echo-anchor")
				switch gen.Uniform(t, 4, "echo-sides") {
				case 0:
					b.Lo = &a
				case 1:
					b.Hi = &a
				}
				oc.P = bq.PPos{Bound: b}
			}
		case 4: // joined with the mandatory part only through an ID or TYPE extraction of the subject
			mi := gen.Uniform(t, len(c.Mandatory), "idjoin-of")
			oc = bq.Clause{S: bq.SPos{Binding: fmt.Sprintf("?os%d", i)}, P: bq.PPos{Binding: fmt.Sprintf("?op%d", i)}, O: bq.OPos{Binding: fmt.Sprintf("?oo%d", i)}}
			if gen.Maybe(t, 50, "idjoin-type") {
				if c.Mandatory[mi].S.Type == "" {
					c.Mandatory[mi].S.Type = fmt.Sprintf("?jty%d", i)
				}
				oc.S.Type = c.Mandatory[mi].S.Type
			} else {
				if c.Mandatory[mi].S.ID == "" {
					c.Mandatory[mi].S.ID = fmt.Sprintf("?jid%d", i)
				}
				oc.S.ID = c.Mandatory[mi].S.ID
			}
			mandatoryNames[oc.S.Type], mandatoryNames[oc.S.ID] = true, true
		default:
			oc = g.GenClauseMixed(fmt.Sprintf("o%d", i), bq.ClauseOpts{})
		}
		if i > 0 && gen.Maybe(t, 25, "chain-on-purpose") {
			// hang the clause on a binding that only the previous OPTIONAL clause introduces
			var only []string
			for _, b := range []string{c.Optional[i-1].S.Binding, c.Optional[i-1].O.Binding} {
				if b != "" && !mandatoryNames[b] {
					only = append(only, b)
				}
			}
			if len(only) > 0 {
				oc = g.GenClauseMixed(fmt.Sprintf("k%d", i), bq.ClauseOpts{})
				oc.S = bq.SPos{Binding: gen.Pick(t, only, "chain-binding")}
				c.Chained = true
			}
		}
		oc.Optional = true
		// a later optional clause may share bindings with the mandatory part only:
		// the statement does not say what "agrees" means against a NULL introduced
		// by an earlier optional clause
		if i > 0 && (c.Chained || gen.Maybe(t, 35, "chain-optionals")) {
			for _, b := range oc.Bindings() {
				for _, pb := range bq.AllBindings(c.Optional) {
					if b == pb && !mandatoryNames[b] {
						c.Chained = true
					}
				}
			}
		} else if i > 0 {
			prev := map[string]bool{}
			for _, b := range bq.AllBindings(c.Optional) {
				if !mandatoryNames[b] {
					prev[b] = true
				}
			}
			oc = renameBindings(oc, func(b string) string {
				if prev[b] {
					return b + "2"
				}
				return b
			})
		}
		c.Optional = append(c.Optional, oc)
	}
	if gen.Maybe(t, 20, "trailing-mandatory") {
		tc := g.GenClauseMixed("z0", bq.ClauseOpts{})
		// often hung on a binding that only an OPTIONAL clause introduces
		var only []string
		for _, oc := range c.Optional {
			for _, b := range []string{oc.S.Binding, oc.O.Binding} {
				if b != "" && !mandatoryNames[b] {
					only = append(only, b)
				}
			}
		}
		if len(only) > 0 && gen.Maybe(t, 60, "trailing-on-optional") {
			tc.S = bq.SPos{Binding: gen.Pick(t, only, "trailing-binding")}
		}
		// keep the clause free of names that would turn it into a second source of NULL questions
		tc.Optional = false
		c.Trailing = []bq.Clause{tc}
		if cs, renamed := avoidObjIDReuse(c.Trailing); renamed {
			c.Trailing = cs
			c.Excluded = append(c.Excluded, "KF-C03-OBJ-ID-UNCHECKED")
		}
		if cs, changed := avoidBindinglessClause(c.Trailing); changed {
			c.Trailing = cs
			c.Excluded = append(c.Excluded, "KF-C03-BINDINGLESS-CLAUSE")
		}
	}
	all := append(append([]bq.Clause{}, c.Mandatory...), c.Optional...)
	if cs, renamed := avoidObjIDReuse(all); renamed {
		c.Mandatory, c.Optional = cs[:len(c.Mandatory)], cs[len(c.Mandatory):]
		c.Excluded = append(c.Excluded, "KF-C03-OBJ-ID-UNCHECKED")
		all = cs
	}
	if cs, changed := avoidBindinglessClause(all); changed {
		c.Mandatory, c.Optional = cs[:len(c.Mandatory)], cs[len(c.Mandatory):]
		c.Excluded = append(c.Excluded, "KF-C03-BINDINGLESS-CLAUSE")
	}
	c.BigLimit = gen.Maybe(t, 30, "big-limit")
	if gen.Maybe(t, 15, "hasglobal") || (ground && gen.Maybe(t, 60, "hasglobal-ground")) {
		c.Global = g.GenGlobal()
	}
	return c
}

// groundClause is the clause that names exactly the triple tr.
func groundClause(tr model.TripleSpec) bq.Clause {
	var c bq.Clause
	s, p := tr.S, tr.P
	c.S.Node, c.P.Pred = &s, &p
	switch {
	case tr.O.N != nil:
		n := *tr.O.N
		c.O.Node = &n
	case tr.O.P != nil:
		op := *tr.O.P
		c.O.Pred = &op
	default:
		l := *tr.O.L
		c.O.Lit = &l
	}
	return c
}

// renameBindings applies f to every binding name of a clause.
func renameBindings(c bq.Clause, f func(string) string) bq.Clause {
	r := func(s string) string {
		if s == "" {
			return s
		}
		return f(s)
	}
	c.S.Binding, c.S.As, c.S.Type, c.S.ID = r(c.S.Binding), r(c.S.As), r(c.S.Type), r(c.S.ID)
	c.P.Binding, c.P.AnchorB, c.P.As, c.P.IDAlias, c.P.At = r(c.P.Binding), r(c.P.AnchorB), r(c.P.As), r(c.P.IDAlias), r(c.P.At)
	c.O.Binding, c.O.AnchorB, c.O.As, c.O.Type, c.O.ID, c.O.At = r(c.O.Binding), r(c.O.AnchorB), r(c.O.As), r(c.O.Type), r(c.O.ID), r(c.O.At)
	if c.P.Bound != nil {
		b := *c.P.Bound
		b.LoB, b.HiB = r(b.LoB), r(b.HiB)
		c.P.Bound = &b
	}
	if c.O.Bound != nil {
		b := *c.O.Bound
		b.LoB, b.HiB = r(b.LoB), r(b.HiB)
		c.O.Bound = &b
	}
	return c
}

func restrictKey(e bq.Env, cols []string) string { return bq.RowKey(e, bq.SortedCols(cols)) }

func checkC10(ctx *pbt.Ctx, c c10Case) error {
	for _, id := range c.Excluded {
		ctx.Excluded(id)
	}
	lq, fq := c.queries()
	out, err := runBQL(BQLReq{Graphs: datasetGraphs(c.Data), Runs: []RunSpec{{Text: lq.String()}, {Text: fq.String()}}})
	if err != nil {
		return err
	}
	if out.Hung && !out.Crashed {
		ctx.Label("no-result-within-bound-twice(C08)")
		return nil // termination is C08's statement; this property cannot judge a run without a result
	}
	if out.Crashed || out.Hung {
		return fmt.Errorf("executing %q crashed=%v hung=%v: %s", fq.String(), out.Crashed, out.Hung, lastLines(out.Stderr, 10))
	}
	lres, fres := out.Resp.Results[0], out.Resp.Results[1]
	if lres.Stage == "parse" || fres.Stage == "parse" {
		if lres.Stage == "parse" {
			if err := syntaxRejection(lq.String(), lres.Err, len(lq.Proj)); err != nil {
				return err
			}
		} else if err := syntaxRejection(fq.String(), fres.Err, len(fq.Proj)); err != nil {
			return err
		}
		ctx.Label("rejected-by-parser")
		return nil
	}
	if lres.Stage != "ok" || lres.Panic != "" {
		ctx.Label("left-query-fails(C03)")
		return nil // the pattern without OPTIONAL is C03's subject
	}
	if fres.Panic != "" {
		return fmt.Errorf("%q panicked: %s", fq.String(), fres.Panic)
	}
	if fres.Stage != "ok" {
		return fmt.Errorf("%q fails (%s: %s) although the same pattern without the OPTIONAL clauses returns %d rows", fq.String(), fres.Stage, fres.Err, len(lres.Rows))
	}
	L := rowEnvs(lres)
	R := rowEnvs(fres)
	lcols := bq.AllBindings(c.Mandatory)
	allCols := bq.AllBindings(append(append(append([]bq.Clause{}, c.Mandatory...), c.Optional...), c.Trailing...))
	if len(L) == 0 {
		if len(R) != 0 {
			return fmt.Errorf("%q returns %d rows although the pattern before the OPTIONAL clauses has no solution", fq.String(), len(R))
		}
		ctx.Label("no-left-rows")
		return nil
	}
	if len(lcols) == len(allCols) {
		ctx.Label("optional-adds-no-binding")
	}
	// expected left join, applied clause by clause to the implementation's own left rows
	cands := bq.Candidates(c.Data, c.From)
	cur := L
	curCols := append([]string{}, lcols...)
	lenient := false
	partial := 0
	for _, oc := range c.Optional {
		newCols := []string{}
		seen := map[string]bool{}
		for _, b := range curCols {
			seen[b] = true
		}
		for _, b := range oc.Bindings() {
			if !seen[b] {
				seen[b] = true
				newCols = append(newCols, b)
			}
		}
		var next []bq.Env
		matchedSome, unmatchedSome := false, false
		for _, e := range cur {
			n := 0
			for _, cd := range cands {
				if !bq.GlobalAllows(c.Global, cd.Triple) {
					continue
				}
				mi, ok := bq.Match(oc, cd.Triple)
				if !ok {
					if len(mi.Inapplicable) > 0 {
						// would match but for an extraction that cannot apply: the
						// implementation documents a NULL cell here (Issue 124)
						agree := true
						for k, v := range mi.Env {
							if old, has := e[k]; has && old.Key() != v.Key() {
								agree = false
							}
						}
						if agree {
							lenient = true
						}
					}
					continue
				}
				agree := true
				merged := bq.Env{}
				for k, v := range e {
					merged[k] = v
				}
				for k, v := range mi.Env {
					if old, has := e[k]; has {
						if old.Key() != v.Key() {
							agree = false
							break
						}
						continue
					}
					merged[k] = v
				}
				if agree {
					n++
					next = append(next, merged)
				}
			}
			if n == 0 {
				unmatchedSome = true
				merged := bq.Env{}
				for k, v := range e {
					merged[k] = v
				}
				for _, b := range newCols {
					merged[b] = bq.Null
				}
				next = append(next, merged)
			} else {
				matchedSome = true
			}
		}
		if unmatchedSome {
			partial++
			if matchedSome {
				ctx.Label("matches-some-rows")
			} else {
				ctx.Label("matches-no-row")
			}
		}
		shared := 0
		for _, b := range oc.Bindings() {
			for _, lb := range curCols {
				if lb == b {
					shared++
					break
				}
			}
		}
		switch {
		case shared == 0:
			ctx.Label("shared:0")
		case shared == 1:
			ctx.Label("shared:1")
		default:
			ctx.Label("shared:>=2")
		}
		if oc.Specificity() == 3 {
			ctx.Label("fully-specified-optional")
		}
		cur = next
		curCols = append(curCols, newCols...)
	}
	// clauses written after the OPTIONAL ones: inner join of the rows so far with their matches;
	// a NULL cell agrees with no value
	for _, tcl := range c.Trailing {
		var next []bq.Env
		for _, e := range cur {
			for _, cd := range cands {
				if !bq.GlobalAllows(c.Global, cd.Triple) {
					continue
				}
				mi, ok := bq.Match(tcl, cd.Triple)
				if !ok {
					continue
				}
				agree := true
				merged := bq.Env{}
				for k, v := range e {
					merged[k] = v
				}
				for k, v := range mi.Env {
					if old, has := e[k]; has {
						if old.Kind == 0 || old.Key() != v.Key() {
							agree = false
							break
						}
						continue
					}
					merged[k] = v
				}
				if agree {
					next = append(next, merged)
				}
			}
		}
		cur = next
		ctx.Label("mandatory-clause-after-optional")
	}
	// (i) every left row appears at least once; (ii) every result row restricts to a left row
	lset := map[string]int{}
	for _, e := range L {
		lset[restrictKey(e, lcols)]++
	}
	rset := map[string]int{}
	for _, e := range R {
		rset[restrictKey(e, lcols)]++
	}
	for k := range lset {
		if len(c.Trailing) > 0 {
			break // a mandatory clause after the OPTIONAL ones may remove rows
		}
		if rset[k] == 0 {
			return fmt.Errorf("OPTIONAL removed a row: %q returns no row for the solution {%s} of the pattern before the OPTIONAL clauses (left rows %d, result rows %d)\n data: %s", fq.String(), k, len(L), len(R), describeData(c.Data))
		}
	}
	for k := range rset {
		if lset[k] == 0 {
			return fmt.Errorf("%q returns a row {%s} that is not a solution of the pattern before the OPTIONAL clauses", fq.String(), k)
		}
	}
	// "once for each match of the optional clause": a match is a stored triple, so an interval
	// clause matching the same (s, id, o) at several anchors counts once per anchor; multiplicities
	// are open only when a triple is stored in more than one listed graph
	if c.Chained {
		ctx.Label("chained-optionals")
		if len(L) >= 2 {
			ctx.Nontrivial()
		}
		return nil
	}
	open := multiplicityOpen(bq.Query{From: c.From, Clauses: append(append(append([]bq.Clause{}, c.Mandatory...), c.Optional...), c.Trailing...)}, c.Data)
	want := envKeys(cur, allCols)
	got := envKeys(R, allCols)
	if lenient {
		ctx.Label("lenient(inapplicable-extraction)")
		// (iii) every result row is either an expected row, or an expected row with
		// some of the optional clause's new bindings NULL
		// (covered by (i)/(ii) above plus: no more rows per left row than candidates allow)
	} else {
		same := false
		if open {
			same = strings.Join(setOf(want), "\n") == strings.Join(setOf(got), "\n")
		} else {
			same = sameMultiset(want, got)
		}
		if !same {
			return fmt.Errorf("%q is not the left outer join of its left rows with the matches of the OPTIONAL clauses:\n  %s\n data: %s", fq.String(), diffMultiset(want, got), describeData(c.Data))
		}
	}
	if c.BigLimit && len(R) > 0 {
		lq2 := fq
		l := fmt.Sprintf("\"%d\"^^type:int64", len(R))
		lq2.Limit = &l
		out2, err := runBQL(BQLReq{Graphs: datasetGraphs(c.Data), Runs: []RunSpec{{Text: lq2.String()}}})
		if err != nil {
			return err
		}
		if out2.Crashed || out2.Hung || out2.Resp.Results[0].Stage != "ok" {
			return fmt.Errorf("%q fails although the same query without LIMIT returns %d rows", lq2.String(), len(R))
		}
		got2 := envKeys(rowEnvs(out2.Resp.Results[0]), allCols)
		if !sameMultiset(got, got2) {
			return fmt.Errorf("%q (LIMIT = the number of rows of the unlimited result) returns different rows:\n  %s", lq2.String(), diffMultiset(got, got2))
		}
		ctx.Label("limit=result-size")
	}
	if len(L) >= 2 && partial > 0 {
		ctx.Nontrivial()
	}
	sort.Strings(got)
	return nil
}

func TestC10(t *testing.T) {
	pbt.Run(t, "C10", "TestC10", genC10, checkC10)
}
