package props

// C19 — the memoizing store is observationally identical to the store it wraps.

import (
	"context"
	"fmt"
	"strings"
	"testing"
	"time"

	"verif/harness/model"
	"verif/harness/pbt"
	"verif/harness/wrapstore"

	"github.com/google/badwolf/storage"
	"github.com/google/badwolf/storage/memoization"
	"github.com/google/badwolf/storage/memory"
	"github.com/google/badwolf/triple"
	"pgregory.net/rapid"
)

type c19Op struct {
	Op    string     `json:"op"` // new get del names add rem read exist
	G     int        `json:"g,omitempty"`
	H     int        `json:"h,omitempty"`
	Batch []int      `json:"batch,omitempty"`
	Call  LookupCall `json:"call,omitempty"`
	Opt   LookupSpec `json:"opt,omitempty"`
	T     int        `json:"t,omitempty"` // triple index for exist
	// Reuse: the read passes the history's ONE long-lived *LookupOptions value to the wrapper,
	// its fields set in place (a caller's paging loop does `lo.Offset++` on one value)
	Reuse bool `json:"reuse,omitempty"`
	// CancelAfter > 0 (op "cread"): the read goes through the wrapper only, with a context that
	// is cancelled once about that many elements were delivered; nothing is required of it, but
	// the reads that follow must still agree with the wrapped store
	CancelAfter int `json:"cancel_after,omitempty"`
}

type c19Case struct {
	U   lookupUniverse `json:"u"`
	Ops []c19Op        `json:"ops"`
	// PreOn: graph ?a already exists, holding the triples Pre, in the store the
	// wrapper is placed over (it was not created through the wrapper)
	PreOn bool  `json:"pre_on,omitempty"`
	Pre   []int `json:"pre,omitempty"`
}

var c19Names = []string{"?a", "?b"}

func genC19(t *rapid.T) c19Case {
	var c c19Case
	c.U = genLookupUniverse(t)
	// a small set of (call, option) pairs used repeatedly so that cache hits and
	// near-miss keys (same call, options differing in one field) are frequent
	type q struct {
		c LookupCall
		o LookupSpec
	}
	var qs []q
	nq := rapid.IntRange(2, 5).Draw(t, "nq")
	for i := 0; i < nq; i++ {
		call := genLookupCall(t, c.U)
		opt := genLookupSpec(t, c.U)
		if rapid.IntRange(0, 2).Draw(t, "default") == 0 {
			opt = LookupSpec{}
		}
		// small pages beyond the first: what they hold depends on everything that sorts before
		// them, so any write can change them
		if rapid.IntRange(0, 3).Draw(t, "small-page") == 0 {
			opt = LookupSpec{Max: rapid.IntRange(1, 2).Draw(t, "spmax"), Offset: rapid.IntRange(1, 3).Draw(t, "spoff")}
		}
		// options the wrapped store rejects: the error is part of the answer, on every repetition
		switch rapid.IntRange(0, 11).Draw(t, "rejected-options") {
		case 0:
			opt.Latest, opt.FOp, opt.FField = true, "isTemporal", "predicate"
		case 1:
			opt.FOp, opt.FField = rapid.SampledFrom([]string{"latest", "isImmutable", "isTemporal"}).Draw(t, "rfop"), "subject"
		}
		qs = append(qs, q{call, opt})
		// sibling differing only in one option field
		sib := opt
		switch rapid.IntRange(0, 3).Draw(t, "sib") {
		case 0:
			if sib.Max == 0 {
				sib.Max = 2
			}
			sib.Offset = opt.Offset + 1
		case 1:
			sib.Max = opt.Max + 1
		case 2:
			sib.Latest = !opt.Latest
			if sib.Latest {
				sib.FOp, sib.FField = "", ""
			}
		default:
			sib.Lower = genWindowBound(t, c.U, "siblo")
		}
		qs = append(qs, q{call, sib})
	}
	n := rapid.IntRange(3, 40).Draw(t, "nops")
	if rapid.IntRange(0, 9).Draw(t, "preexisting") < 3 {
		c.PreOn = true
		c.Pre = rapid.SliceOfN(rapid.IntRange(0, len(c.U.Triples)-1), 0, 6).Draw(t, "pre")
		c.Ops = append(c.Ops, c19Op{Op: "get", G: 0}, c19Op{Op: "get", G: 0})
	} else {
		c.Ops = append(c.Ops, c19Op{Op: "new", G: 0})
	}
	for i := 0; i < n; i++ {
		var op c19Op
		switch k := rapid.IntRange(0, 29).Draw(t, "opk"); {
		case k == 0:
			op.Op = "new"
		case k <= 3:
			op.Op = "get"
		case k == 4:
			op.Op = "del"
		case k == 5:
			op.Op = "names"
		case k <= 10:
			op.Op = "add"
		case k <= 13:
			op.Op = "rem"
		case k <= 16:
			op.Op = "exist"
		default:
			op.Op = "read"
		}
		// a write is often followed at once by reads (what was memoized before it must be gone)
		if i > 0 && (c.Ops[i-1].Op == "rem" || c.Ops[i-1].Op == "add") && rapid.IntRange(0, 1).Draw(t, "read-after-write") == 0 {
			op.Op = "read"
		}
		op.G = rapid.IntRange(0, len(c19Names)-1).Draw(t, "g")
		op.H = rapid.IntRange(0, 5).Draw(t, "h")
		switch op.Op {
		case "add", "rem":
			op.Batch = rapid.SliceOfN(rapid.IntRange(0, len(c.U.Triples)-1), 1, 4).Draw(t, "batch")
		case "exist":
			op.T = rapid.IntRange(0, len(c.U.Triples)-1).Draw(t, "t")
		case "read":
			x := rapid.SampledFrom(qs).Draw(t, "q")
			op.Call, op.Opt = x.c, x.o
			op.Reuse = rapid.Bool().Draw(t, "reuse-options-value")
		}
		c.Ops = append(c.Ops, op)
	}
	// a tail of reads only: one read whose context is cancelled part way, then the same read
	// again (and others). No write follows: on cancellation the wrapper abandons the lookup of
	// the wrapped store, which then stays blocked holding the graph's read lock (observed on the
	// unchanged tree; cancellation is outside the statement, only the later reads are checked).
	if rapid.IntRange(0, 5).Draw(t, "cancel-tail") == 0 {
		x := rapid.SampledFrom(qs).Draw(t, "cq")
		x.o.Max, x.o.Offset = 0, 0
		g, h := rapid.IntRange(0, len(c19Names)-1).Draw(t, "cg"), rapid.IntRange(0, 5).Draw(t, "ch")
		c.Ops = append(c.Ops, c19Op{Op: "cread", G: g, H: h, Call: x.c, Opt: x.o, CancelAfter: rapid.IntRange(1, 3).Draw(t, "cancel-after")})
		c.Ops = append(c.Ops, c19Op{Op: "read", G: g, H: h, Call: x.c, Opt: x.o})
		for i, n := 0, rapid.IntRange(0, 2).Draw(t, "ctail"); i < n; i++ {
			y := rapid.SampledFrom(qs).Draw(t, "cq2")
			c.Ops = append(c.Ops, c19Op{Op: "read", G: g, H: rapid.IntRange(0, 5).Draw(t, "ch2"), Call: y.c, Opt: y.o})
		}
	}
	return c
}

type c19Handle struct {
	w, p storage.Graph
	name string
	gen  int
}

func checkC19(ctx *pbt.Ctx, c c19Case) error {
	bg := context.Background()
	inner := memory.NewStore()
	P := memory.NewStore()
	real := make([]*triple.Triple, len(c.U.Triples))
	for i, s := range c.U.Triples {
		real[i] = s.MustTriple()
	}
	var handles []c19Handle
	alive := map[string]int{}
	gen := 0
	if c.PreOn {
		ctx.Label("wrapper-over-populated-store")
		for _, st := range []storage.Store{inner, P} {
			g, err := st.NewGraph(bg, c19Names[0])
			if err != nil {
				return fmt.Errorf("harness: %v", err)
			}
			var b []*triple.Triple
			for _, i := range c.Pre {
				b = append(b, real[i%len(real)])
			}
			if err := g.AddTriples(bg, b); err != nil {
				return fmt.Errorf("harness: %v", err)
			}
		}
		gen++
		alive[c19Names[0]] = gen
	}
	W := memoization.New(inner)
	sharedLO := &storage.LookupOptions{}
	reusedReads, cancelled := 0, 0
	seenRead := map[string]bool{}    // (generation, call, opt) read before (cache candidates)
	seenCallOpt := map[string]bool{} // call read with some option before
	wroteSince := map[int]bool{}
	hitAfterWrite, nearKey, multiHandle := false, false, false
	handlesPerGen := map[int]int{}
	for i, op := range c.Ops {
		name := c19Names[op.G%len(c19Names)]
		switch op.Op {
		case "new":
			wg, werr := W.NewGraph(bg, name)
			pg, perr := P.NewGraph(bg, name)
			if (werr == nil) != (perr == nil) {
				return fmt.Errorf("step %d NewGraph(%q): wrapper err=%v, wrapped store err=%v", i, name, werr, perr)
			}
			if werr == nil {
				gen++
				alive[name] = gen
				handles = append(handles, c19Handle{wg, pg, name, gen})
				handlesPerGen[gen]++
			}
		case "get":
			wg, werr := W.Graph(bg, name)
			pg, perr := P.Graph(bg, name)
			if (werr == nil) != (perr == nil) {
				return fmt.Errorf("step %d Graph(%q): wrapper err=%v, wrapped store err=%v", i, name, werr, perr)
			}
			if werr == nil {
				handles = append(handles, c19Handle{wg, pg, name, alive[name]})
				handlesPerGen[alive[name]]++
				if handlesPerGen[alive[name]] >= 2 {
					multiHandle = true
				}
			}
		case "del":
			werr := W.DeleteGraph(bg, name)
			perr := P.DeleteGraph(bg, name)
			if (werr == nil) != (perr == nil) {
				return fmt.Errorf("step %d DeleteGraph(%q): wrapper err=%v, wrapped store err=%v", i, name, werr, perr)
			}
			delete(alive, name)
		case "names":
			wn, werr := graphNames(W)
			pn, perr := graphNames(P)
			if werr != nil || perr != nil || strings.Join(wn, "\x00") != strings.Join(pn, "\x00") {
				return fmt.Errorf("step %d GraphNames: wrapper %q (%v), wrapped store %q (%v)", i, wn, werr, pn, perr)
			}
		case "add", "rem":
			if len(handles) == 0 {
				continue
			}
			h := handles[op.H%len(handles)]
			var batch []*triple.Triple
			for _, b := range op.Batch {
				batch = append(batch, real[b%len(real)])
			}
			var werr, perr error
			if op.Op == "add" {
				werr, perr = h.w.AddTriples(bg, batch), h.p.AddTriples(bg, batch)
			} else {
				werr, perr = h.w.RemoveTriples(bg, batch), h.p.RemoveTriples(bg, batch)
			}
			if (werr == nil) != (perr == nil) {
				return fmt.Errorf("step %d %s: wrapper err=%v, wrapped store err=%v", i, op.Op, werr, perr)
			}
			wroteSince[h.gen] = true
		case "exist":
			if len(handles) == 0 {
				continue
			}
			hi := op.H % len(handles)
			h := handles[hi]
			tr := real[op.T%len(real)]
			wb, werr := h.w.Exist(bg, tr)
			pb, perr := h.p.Exist(bg, tr)
			if wb != pb || (werr == nil) != (perr == nil) {
				return fmt.Errorf("step %d Exist(%s) through handle #%d of %q: wrapper %v (%v), wrapped store %v (%v)", i, model.KeyTriple(tr), hi, h.name, wb, werr, pb, perr)
			}
		case "cread":
			if len(handles) == 0 {
				continue
			}
			hi := op.H % len(handles)
			h := handles[hi]
			cancelled++
			if !callLookupCancelled(h.w, op.Call, op.Opt.build(), op.CancelAfter) {
				return fmt.Errorf("step %d %s through handle #%d of %q: the lookup did not return within 20 s after its context was cancelled", i, describeCall(op.Call), hi, h.name)
			}
		case "read":
			if len(handles) == 0 {
				continue
			}
			hi := op.H % len(handles)
			h := handles[hi]
			wlo := op.Opt.build()
			if op.Reuse {
				op.Opt.applyTo(sharedLO)
				wlo = sharedLO
				reusedReads++
			}
			wr := callLookup(h.w, op.Call, wlo)
			pr := callLookup(h.p, op.Call, op.Opt.build())
			desc := fmt.Sprintf("step %d %s with %s through handle #%d of %q", i, describeCall(op.Call), describeOpt(op.Opt), hi, h.name)
			if wr.Panicked != nil {
				return fmt.Errorf("%s: wrapper panicked: %v", desc, wr.Panicked)
			}
			if !wr.Closed {
				return fmt.Errorf("%s: wrapper returned without closing the channel", desc)
			}
			if (wr.Err == nil) != (pr.Err == nil) {
				return fmt.Errorf("%s: wrapper err=%v, wrapped store err=%v", desc, wr.Err, pr.Err)
			}
			same := sameMultiset(wr.Keys, pr.Keys)
			if op.Opt.Max > 0 {
				same = strings.Join(wr.Keys, "\x00") == strings.Join(pr.Keys, "\x00")
			}
			if !same && wr.Err == nil {
				return fmt.Errorf("%s: wrapper returns %v, the wrapped store returns %v at this moment", desc, wr.Keys, pr.Keys)
			}
			ck := fmt.Sprintf("%d|%s", h.gen, describeCall(op.Call))
			rk := ck + "|" + describeOpt(op.Opt)
			if seenRead[rk] && wroteSince[h.gen] {
				hitAfterWrite = true
			}
			if seenCallOpt[ck] && !seenRead[rk] {
				nearKey = true
			}
			seenRead[rk] = true
			seenCallOpt[ck] = true
		}
	}
	if hitAfterWrite {
		ctx.Label("repeat-read-after-write")
	}
	if nearKey {
		ctx.Label("options-differ-in-one-field")
	}
	if multiHandle {
		ctx.Label("several-handles")
	}
	if reusedReads >= 2 {
		ctx.Label("options-value-reused")
	}
	if cancelled > 0 {
		ctx.Label("read-after-cancelled-read")
	}
	if hitAfterWrite || nearKey {
		ctx.Nontrivial()
	}
	return nil
}

func TestC19(t *testing.T) {
	pbt.Run(t, "C19", "TestC19", genC19, checkC19)
}

// ---- forced interleavings of one writer and one or two readers ----

type c19Reader struct {
	Call  LookupCall `json:"call"`
	Opt   LookupSpec `json:"opt"`
	Exist bool       `json:"exist,omitempty"`
	T     int        `json:"t,omitempty"`
	Other bool       `json:"other_handle,omitempty"` // use a second handle of the same graph
	Warm  bool       `json:"warm,omitempty"`         // perform the same read once before the schedule
}

type c19Sched struct {
	U       lookupUniverse `json:"u"`
	Initial []int          `json:"initial"`
	Rem     bool           `json:"rem,omitempty"`
	Batch   []int          `json:"batch"`
	WOther  bool           `json:"writer_other_handle,omitempty"`
	Readers []c19Reader    `json:"readers"`
	Orders  [][]int        `json:"orders,omitempty"` // explicit orders (actor index per event); empty = enumerate all
}

func genC19Sched(t *rapid.T) c19Sched {
	var c c19Sched
	c.U = genLookupUniverse(t)
	c.Initial = rapid.SliceOfN(rapid.IntRange(0, len(c.U.Triples)-1), 0, 8).Draw(t, "initial")
	c.Rem = rapid.Bool().Draw(t, "rem")
	c.Batch = rapid.SliceOfN(rapid.IntRange(0, len(c.U.Triples)-1), 1, 4).Draw(t, "batch")
	c.WOther = rapid.IntRange(0, 3).Draw(t, "wother") == 0
	nr := 1
	if pbt.Thorough() && rapid.Bool().Draw(t, "two") {
		nr = 2
	}
	for i := 0; i < nr; i++ {
		r := c19Reader{Other: rapid.IntRange(0, 2).Draw(t, "rother") == 0, Warm: rapid.Bool().Draw(t, "warm")}
		if rapid.IntRange(0, 4).Draw(t, "rexist") == 0 {
			r.Exist = true
			r.T = rapid.SampledFrom(c.Batch).Draw(t, "rt")
		} else {
			// bias to lookups that the written batch affects
			tr := c.U.Triples[rapid.SampledFrom(c.Batch).Draw(t, "about")%len(c.U.Triples)]
			m := rapid.SampledFrom(lookupMethods).Draw(t, "m")
			ns, np, no := methodNeeds(m)
			r.Call = LookupCall{M: m}
			if ns {
				s := tr.S
				r.Call.S = &s
			}
			if np {
				p := tr.P
				r.Call.P = &p
			}
			if no {
				o := tr.O
				r.Call.O = &o
			}
			if rapid.IntRange(0, 2).Draw(t, "ropt") == 0 {
				r.Opt = genLookupSpec(t, c.U)
				r.Opt.Latest = false
				if r.Opt.FField == "subject" {
					r.Opt.FField = "predicate"
				}
			}
		}
		c.Readers = append(c.Readers, r)
	}
	return c
}

// allOrders enumerates the interleavings of k events of each of n actors
// (actor 0 = writer) that keep each actor's own order.
func allOrders(n, k int) [][]int {
	var out [][]int
	cnt := make([]int, n)
	var rec func(cur []int)
	rec = func(cur []int) {
		if len(cur) == n*k {
			out = append(out, append([]int{}, cur...))
			return
		}
		for a := 0; a < n; a++ {
			if cnt[a] < k {
				cnt[a]++
				rec(append(cur, a))
				cnt[a]--
			}
		}
	}
	rec(nil)
	return out
}

type actorCtxKey struct{}

const c19Step = 5 * time.Second

func runC19Order(c c19Sched, order []int) (overlap bool, err error) {
	real := make([]*triple.Triple, len(c.U.Triples))
	for i, s := range c.U.Triples {
		real[i] = s.MustTriple()
	}
	plain := memory.NewStore()
	gate := wrapstore.NewGate(func(cl wrapstore.Call) string {
		if cl.Ctx == nil {
			return ""
		}
		a, _ := cl.Ctx.Value(actorCtxKey{}).(string)
		return a
	})
	inner := wrapstore.New(memory.NewStore(), gate)
	W := memoization.New(inner)
	bg := context.Background()
	pg, _ := plain.NewGraph(bg, "?g")
	h1, err := W.NewGraph(bg, "?g")
	if err != nil {
		return false, err
	}
	h2, err := W.Graph(bg, "?g")
	if err != nil {
		return false, err
	}
	var init []*triple.Triple
	for _, i := range c.Initial {
		init = append(init, real[i%len(real)])
	}
	h1.AddTriples(bg, init)
	pg.AddTriples(bg, init)
	pick := func(other bool) storage.Graph {
		if other {
			return h2
		}
		return h1
	}
	doRead := func(ctx context.Context, r c19Reader) lookupResult {
		g := pick(r.Other)
		if r.Exist {
			b, e := g.Exist(ctx, real[r.T%len(real)])
			return lookupResult{Keys: []string{fmt.Sprint(b)}, Err: e, Closed: true}
		}
		return callLookupCtx(ctx, g, r.Call, r.Opt.build())
	}
	for _, r := range c.Readers {
		if r.Warm {
			doRead(bg, r)
		}
	}
	var batch []*triple.Triple
	for _, i := range c.Batch {
		batch = append(batch, real[i%len(real)])
	}
	n := 1 + len(c.Readers)
	names := []string{"W", "R1", "R2"}[:n]
	done := make([]chan struct{}, n)
	started := make([]bool, n)
	finished := make([]bool, n)
	start := func(a int) {
		started[a] = true
		done[a] = make(chan struct{})
		actx := context.WithValue(bg, actorCtxKey{}, names[a])
		go func() {
			defer close(done[a])
			if a == 0 {
				if c.Rem {
					pick(c.WOther).RemoveTriples(actx, batch)
				} else {
					pick(c.WOther).AddTriples(actx, batch)
				}
				return
			}
			doRead(actx, c.Readers[a-1])
		}()
	}
	// blocked[a] = the gate point the actor is currently waiting at ("" if none)
	blocked := make([]string, n)
	// waitQuiet waits until actor a is blocked at a gate or has finished
	waitQuiet := func(a int) error {
		for {
			if blocked[a] != "" || finished[a] {
				return nil
			}
			select {
			case ev := <-gate.Arrived:
				for i, nm := range names {
					if nm == ev.Actor {
						blocked[i] = ev.Point
					}
				}
			case <-done[a]:
				finished[a] = true
			case <-time.After(c19Step):
				return fmt.Errorf("actor %s neither reached a gate nor finished within %v (deadlock?)", names[a], c19Step)
			}
		}
	}
	writerInFlight, readOverlap := false, false
	for _, a := range order {
		switch {
		case !started[a]:
			start(a)
			if a == 0 {
				writerInFlight = true
			} else if writerInFlight {
				readOverlap = true
			}
		case finished[a]:
			// the actor needed fewer steps (cache hit): nothing left to release
			continue
		default:
			pt := blocked[a]
			blocked[a] = ""
			if !gate.Release(names[a], pt) {
				return readOverlap, fmt.Errorf("internal: actor %s not blocked at %q", names[a], pt)
			}
			if a != 0 && writerInFlight {
				readOverlap = true
			}
		}
		if err := waitQuiet(a); err != nil {
			return readOverlap, err
		}
		if a == 0 && finished[0] {
			writerInFlight = false
		}
	}
	// release whatever is still blocked (orders are generated for 3 events per actor;
	// an actor may need all of them) and wait for the end
	for a := 0; a < n; a++ {
		for started[a] && !finished[a] {
			if blocked[a] != "" {
				pt := blocked[a]
				blocked[a] = ""
				gate.Release(names[a], pt)
			}
			if err := waitQuiet(a); err != nil {
				return readOverlap, err
			}
		}
	}
	// the plain store performs the write now: it is the state "once the write has returned"
	if c.Rem {
		pg.RemoveTriples(bg, batch)
	} else {
		pg.AddTriples(bg, batch)
	}
	// every read through every handle must now reflect the write
	for ri, r := range c.Readers {
		for _, other := range []bool{false, true} {
			rr := r
			rr.Other = other
			got := doRead(bg, rr)
			var want lookupResult
			if r.Exist {
				b, e := pg.Exist(bg, real[r.T%len(real)])
				want = lookupResult{Keys: []string{fmt.Sprint(b)}, Err: e}
			} else {
				want = callLookup(pg, r.Call, r.Opt.build())
			}
			same := sameMultiset(got.Keys, want.Keys)
			if r.Opt.Max > 0 {
				same = strings.Join(got.Keys, "\x00") == strings.Join(want.Keys, "\x00")
			}
			if (got.Err == nil) != (want.Err == nil) || (got.Err == nil && !same) {
				what := describeCall(r.Call) + " " + describeOpt(r.Opt)
				if r.Exist {
					what = "Exist(" + model.KeyTriple(real[r.T%len(real)]) + ")"
				}
				return readOverlap, fmt.Errorf("after the write returned and all reads finished (order %v, actors %v), reader %d's %s through handle h%d returns %v (err %v) but the wrapped store holds %v (err %v)",
					order, names, ri+1, what, map[bool]int{false: 1, true: 2}[other], got.Keys, got.Err, want.Keys, want.Err)
			}
		}
	}
	return readOverlap, nil
}

func callLookupCtx(ctx context.Context, g storage.Graph, c LookupCall, lo *storage.LookupOptions) lookupResult {
	// same as callLookup but with the caller's context (actor name for the gates)
	return callLookupWith(ctx, g, c, lo)
}

func checkC19Sched(ctx *pbt.Ctx, c c19Sched) error {
	orders := c.Orders
	if len(orders) == 0 {
		orders = allOrders(1+len(c.Readers), 3)
	}
	overlaps := 0
	for _, o := range orders {
		ov, err := runC19Order(c, o)
		if err != nil {
			return err
		}
		if ov {
			overlaps++
		}
	}
	pbt.AddExtra("TestC19Sched", "interleavings", len(orders))
	pbt.AddExtra("TestC19Sched", "interleavings_with_overlap", overlaps)
	if overlaps > 0 {
		ctx.Nontrivial()
	}
	ctx.Labelf("readers:%d", len(c.Readers))
	return nil
}

func TestC19Sched(t *testing.T) {
	pbt.Run(t, "C19", "TestC19Sched", genC19Sched, checkC19Sched)
}
