package props

import (
	"encoding/json"
	"time"

	"verif/harness/model"
)

func jsonMarshal(v interface{}) []byte {
	b, err := json.Marshal(v)
	if err != nil {
		b, _ = json.Marshal(map[string]string{"err": err.Error()})
	}
	return b
}

func jsonUnmarshal(b []byte, v interface{}) error { return json.Unmarshal(b, v) }

func timeKey(t *time.Time) string {
	if t == nil {
		return "nil"
	}
	return model.KeyTime(*t)
}
