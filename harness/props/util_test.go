package props

import "encoding/json"

func jsonMarshal(v interface{}) []byte {
	b, err := json.Marshal(v)
	if err != nil {
		b, _ = json.Marshal(map[string]string{"err": err.Error()})
	}
	return b
}

func jsonUnmarshal(b []byte, v interface{}) error { return json.Unmarshal(b, v) }
