package props

// C06 — equal UUID exactly when values are equal; UUID defined for every value.

import (
	"encoding/binary"
	"fmt"
	"math"
	"sync"
	"testing"
	"time"
	"unicode/utf8"

	"verif/harness/gen"
	"verif/harness/isolate"
	"verif/harness/model"
	"verif/harness/pbt"

	"github.com/google/badwolf/triple"
	"github.com/pborman/uuid"
	"pgregory.net/rapid"
)

type anySpec struct {
	N *model.NodeSpec   `json:"n,omitempty"`
	P *model.PredSpec   `json:"p,omitempty"`
	L *model.LitSpec    `json:"l,omitempty"`
	O *model.ObjSpec    `json:"o,omitempty"`
	T *model.TripleSpec `json:"t,omitempty"`
}

func (a anySpec) key() string {
	switch {
	case a.N != nil:
		return a.N.Key()
	case a.P != nil:
		return a.P.Key()
	case a.L != nil:
		return a.L.Key()
	case a.O != nil:
		return a.O.Key()
	case a.T != nil:
		return a.T.Key()
	}
	return "?"
}

type uuider interface{ UUID() uuid.UUID }

func (a anySpec) build() (uuider, error) {
	switch {
	case a.N != nil:
		return a.N.Build()
	case a.P != nil:
		return a.P.Build()
	case a.L != nil:
		return a.L.Build()
	case a.O != nil:
		return a.O.Build()
	case a.T != nil:
		return a.T.Build()
	}
	return nil, fmt.Errorf("empty spec")
}

type c06Case struct {
	X   anySpec `json:"x"`
	Y   anySpec `json:"y"`
	How string  `json:"how"`
}

// litHashedBytes: the bytes a literal contributes to its UUID today (used only by
// the known-finding matcher for the missing type tag and to build siblings).
func litHashedBytes(l model.LitSpec) []byte {
	switch l.Kind {
	case "bool":
		if l.B {
			return []byte("true")
		}
		return []byte("false")
	case "int64":
		b := make([]byte, 10)
		n := binary.PutVarint(b, l.I)
		if n < 8 {
			n = 8
		}
		return b[:n]
	case "float64":
		b := make([]byte, 8)
		binary.LittleEndian.PutUint64(b, l.F)
		return b
	case "text":
		return []byte(l.S)
	default:
		return l.Blob
	}
}

// sibling literal of another type with the same hashed bytes.
func litSibling(l model.LitSpec) model.LitSpec {
	b := litHashedBytes(l)
	if l.Kind == "blob" || !utf8.Valid(b) {
		if l.Kind == "blob" {
			if utf8.Valid(b) {
				return model.LitSpec{Kind: "text", S: string(b)}
			}
			return model.LitSpec{Kind: "blob", Blob: append(append([]byte{}, b...), 0)}
		}
		return model.LitSpec{Kind: "blob", Blob: append([]byte{}, b...)}
	}
	if l.Kind == "text" {
		return model.LitSpec{Kind: "blob", Blob: append([]byte{}, b...)}
	}
	return model.LitSpec{Kind: "text", S: string(b)}
}

func mutateTime(t *rapid.T, ts model.TimeSpec) (model.TimeSpec, string) {
	switch rapid.IntRange(0, 4).Draw(t, "tmut") {
	case 0: // same instant, other zone: must stay EQUAL
		off := rapid.SampledFrom([]int{0, 3600, -8 * 3600, 19800}).Draw(t, "off2")
		if off == ts.Off {
			off = ts.Off + 3600
		}
		n := ts
		n.Off = off
		if n.Sec+int64(n.Off) < gen.MinSec || n.Sec+int64(n.Off) > gen.MaxSec {
			n.Off = ts.Off
			return n, "same"
		}
		return n, "zone"
	case 1:
		n := ts
		if n.Nsec < 999999999 {
			n.Nsec++
		} else {
			n.Nsec--
		}
		return n, "1ns"
	case 2: // 2^64 ns apart: 18446744073 s + 709551616 ns
		n := ts
		ds, dn := int64(18446744073), 709551616
		if n.Sec+ds+1 <= gen.MaxSec-86400 {
			n.Sec += ds
			n.Nsec += dn
			if n.Nsec >= 1000000000 {
				n.Nsec -= 1000000000
				n.Sec++
			}
		} else {
			n.Sec -= ds
			n.Nsec -= dn
			if n.Nsec < 0 {
				n.Nsec += 1000000000
				n.Sec--
			}
		}
		if n.Sec+int64(n.Off) < gen.MinSec || n.Sec+int64(n.Off) > gen.MaxSec {
			n.Off = 0
		}
		return n, "2^64ns"
	case 3:
		n := ts
		n.Sec++
		if n.Sec+int64(n.Off) > gen.MaxSec {
			n.Sec -= 2
		}
		return n, "1s"
	default:
		return gen.Time().Draw(t, "othertime"), "othertime"
	}
}

func mutateNode(t *rapid.T, n model.NodeSpec) (model.NodeSpec, string) {
	for _, u := range gen.UUIDSpellings {
		if n.ID == u && rapid.IntRange(0, 2).Draw(t, "uuid-respell") > 0 {
			// the same or a neighbouring UUID in another spelling: a different id text, a different node
			o := rapid.SampledFrom(gen.UUIDSpellings).Draw(t, "uuid-other")
			if o != n.ID {
				return model.NodeSpec{Type: n.Type, ID: o}, "uuid-spelling"
			}
		}
	}
	if rapid.IntRange(0, 14).Draw(t, "uuid-named") == 0 {
		// a blank node named after the UUID of the first node
		if real, err := n.Build(); err == nil {
			id := ""
			func() {
				defer func() { recover() }()
				id = real.UUID().String()
			}()
			if id != "" {
				return model.NodeSpec{Type: "/_", ID: id}, "named-after-uuid"
			}
		}
	}
	switch rapid.IntRange(0, 3).Draw(t, "nmut") {
	case 0: // move the type/id boundary: /a + bc  <->  /ab + c
		if len(n.ID) >= 2 && utf8.ValidString(n.ID[:1]) && n.ID[0] != '/' && utf8.ValidString(n.ID[1:]) && n.ID[0] < 0x80 {
			return model.NodeSpec{Type: n.Type + n.ID[:1], ID: n.ID[1:]}, "boundary"
		}
		// move the last type char to the id when the type keeps a valid shape
		if len(n.Type) >= 3 && n.Type[len(n.Type)-1] < 0x80 && n.Type[len(n.Type)-2] != '/' {
			return model.NodeSpec{Type: n.Type[:len(n.Type)-1], ID: n.Type[len(n.Type)-1:] + n.ID}, "boundary"
		}
		return model.NodeSpec{Type: n.Type + "/x", ID: n.ID}, "type"
	case 1:
		return model.NodeSpec{Type: n.Type, ID: n.ID + "x"}, "id"
	case 2:
		return model.NodeSpec{Type: n.Type + "/x", ID: n.ID}, "type"
	default:
		return gen.Node().Draw(t, "othernode"), "other"
	}
}

func mutatePred(t *rapid.T, p model.PredSpec) (model.PredSpec, string) {
	switch rapid.IntRange(0, 3).Draw(t, "pmut") {
	case 0: // flip kind
		if p.Anchor == nil {
			ts := gen.Time().Draw(t, "anchor2")
			return model.PredSpec{ID: p.ID, Anchor: &ts}, "kind"
		}
		return model.PredSpec{ID: p.ID}, "kind"
	case 1:
		if p.Anchor != nil {
			ts, how := mutateTime(t, *p.Anchor)
			return model.PredSpec{ID: p.ID, Anchor: &ts}, "anchor-" + how
		}
		return model.PredSpec{ID: p.ID + "immutable"}, "id-suffix"
	case 2:
		q := p
		q.ID = p.ID + rapid.SampledFrom([]string{"x", "immutable", "e"}).Draw(t, "suffix")
		if !utf8.ValidString(q.ID) {
			q.ID = p.ID + "x"
		}
		return q, "id"
	default:
		return gen.Pred().Draw(t, "otherpred"), "other"
	}
}

func mutateLit(t *rapid.T, l model.LitSpec) (model.LitSpec, string) {
	switch rapid.IntRange(0, 2).Draw(t, "lmut") {
	case 0:
		return litSibling(l), "type-sibling"
	case 1:
		switch l.Kind {
		case "bool":
			return model.LitSpec{Kind: "bool", B: !l.B}, "value"
		case "int64":
			if l.I == math.MaxInt64 {
				return model.LitSpec{Kind: "int64", I: l.I - 1}, "value"
			}
			return model.LitSpec{Kind: "int64", I: l.I + 1}, "value"
		case "float64":
			return model.LitSpec{Kind: "float64", F: l.F ^ 1}, "value-ulp"
		case "text":
			return model.LitSpec{Kind: "text", S: l.S + "x"}, "value"
		default:
			return model.LitSpec{Kind: "blob", Blob: append(append([]byte{}, l.Blob...), 0)}, "value"
		}
	default:
		return gen.Lit(true).Draw(t, "otherlit"), "other"
	}
}

func mutateObj(t *rapid.T, o model.ObjSpec) (model.ObjSpec, string) {
	switch {
	case o.N != nil:
		n, h := mutateNode(t, *o.N)
		return model.ObjSpec{N: &n}, "obj-node-" + h
	case o.P != nil:
		p, h := mutatePred(t, *o.P)
		return model.ObjSpec{P: &p}, "obj-pred-" + h
	default:
		l, h := mutateLit(t, *o.L)
		return model.ObjSpec{L: &l}, "obj-lit-" + h
	}
}

func genC06(t *rapid.T) c06Case {
	kind := rapid.SampledFrom([]string{"node", "pred", "pred", "lit", "lit", "obj", "triple", "triple"}).Draw(t, "kind")
	mode := rapid.IntRange(0, 9).Draw(t, "mode") // 0-1 same, 2-7 mutate one component, 8-9 independent
	var c c06Case
	switch kind {
	case "node":
		x := gen.Node().Draw(t, "x")
		c.X.N = &x
		switch {
		case mode <= 1:
			y := x
			c.Y.N, c.How = &y, "same"
		case mode <= 7:
			y, h := mutateNode(t, x)
			c.Y.N, c.How = &y, "node-"+h
		default:
			y := gen.Node().Draw(t, "y")
			c.Y.N, c.How = &y, "independent"
		}
	case "pred":
		x := gen.Pred().Draw(t, "x")
		c.X.P = &x
		switch {
		case mode <= 1:
			y := x
			c.Y.P, c.How = &y, "same"
		case mode <= 7:
			y, h := mutatePred(t, x)
			c.Y.P, c.How = &y, "pred-"+h
		default:
			y := gen.Pred().Draw(t, "y")
			c.Y.P, c.How = &y, "independent"
		}
	case "lit":
		x := gen.Lit(true).Draw(t, "x")
		c.X.L = &x
		switch {
		case mode <= 1:
			y := x
			c.Y.L, c.How = &y, "same"
		case mode <= 7:
			y, h := mutateLit(t, x)
			c.Y.L, c.How = &y, "lit-"+h
		default:
			y := gen.Lit(true).Draw(t, "y")
			c.Y.L, c.How = &y, "independent"
		}
	case "obj":
		x := gen.Obj(true).Draw(t, "x")
		c.X.O = &x
		switch {
		case mode <= 1:
			y := x
			c.Y.O, c.How = &y, "same"
		case mode <= 7:
			y, h := mutateObj(t, x)
			c.Y.O, c.How = &y, h
		default:
			y := gen.Obj(true).Draw(t, "y")
			c.Y.O, c.How = &y, "independent"
		}
	default:
		x := gen.Triple(true).Draw(t, "x")
		c.X.T = &x
		y := x
		switch {
		case mode <= 1:
			c.How = "same"
		case mode <= 7:
			switch rapid.IntRange(0, 2).Draw(t, "which") {
			case 0:
				n, h := mutateNode(t, x.S)
				y.S, c.How = n, "triple-subj-"+h
			case 1:
				p, h := mutatePred(t, x.P)
				y.P, c.How = p, "triple-pred-"+h
			default:
				o, h := mutateObj(t, x.O)
				y.O, c.How = o, "triple-"+h
			}
		default:
			y = gen.Triple(true).Draw(t, "y")
			c.How = "independent"
		}
		c.Y.T = &y
	}
	return c
}

func safeUUID(v uuider) (u uuid.UUID, err error) {
	defer func() {
		if r := recover(); r != nil {
			err = fmt.Errorf("UUID() panicked: %v", r)
		}
	}()
	return v.UUID(), nil
}

// known collision classes (matchers of open findings); each returns the finding id or "".
func knownCollideNode(a, b model.NodeSpec) string {
	if a.Key() != b.Key() && a.Type+a.ID == b.Type+b.ID {
		return "KF-C06-NODE-BOUNDARY"
	}
	return ""
}

func knownCollideLit(a, b model.LitSpec) string {
	if a.Kind != b.Kind && string(litHashedBytes(a)) == string(litHashedBytes(b)) {
		return "KF-C06-LIT-TYPETAG"
	}
	return ""
}

func unixNanoWrapped(ts model.TimeSpec) int64 {
	return ts.Sec*1000000000 + int64(ts.Nsec) // wraps in int64 arithmetic exactly like time.UnixNano
}

func outsideUnixNano(ts model.TimeSpec) bool {
	t := ts.Time()
	return t.Before(time.Unix(0, math.MinInt64)) || t.After(time.Unix(0, math.MaxInt64))
}

func knownCollidePred(a, b model.PredSpec) string {
	if a.Anchor != nil && b.Anchor != nil && a.ID == b.ID && a.Key() != b.Key() &&
		unixNanoWrapped(*a.Anchor) == unixNanoWrapped(*b.Anchor) {
		return "KF-C06-PRED-UNIXNANO"
	}
	return ""
}

func knownCollideObj(a, b model.ObjSpec) string {
	switch {
	case a.N != nil && b.N != nil:
		return knownCollideNode(*a.N, *b.N)
	case a.P != nil && b.P != nil:
		return knownCollidePred(*a.P, *b.P)
	case a.L != nil && b.L != nil:
		return knownCollideLit(*a.L, *b.L)
	}
	return ""
}

// knownCollision returns the finding ids that together explain an unexpected UUID
// equality of x and y, or nil when some differing component is not explained.
func knownCollision(x, y anySpec) []string {
	var ids []string
	add := func(differs bool, id string) bool {
		if !differs {
			return true
		}
		if id == "" {
			return false
		}
		ids = append(ids, id)
		return true
	}
	switch {
	case x.N != nil && y.N != nil:
		if !add(true, knownCollideNode(*x.N, *y.N)) {
			return nil
		}
	case x.P != nil && y.P != nil:
		if !add(true, knownCollidePred(*x.P, *y.P)) {
			return nil
		}
	case x.L != nil && y.L != nil:
		if !add(true, knownCollideLit(*x.L, *y.L)) {
			return nil
		}
	case x.O != nil && y.O != nil:
		if !add(true, knownCollideObj(*x.O, *y.O)) {
			return nil
		}
	case x.T != nil && y.T != nil:
		if !add(x.T.S.Key() != y.T.S.Key(), knownCollideNode(x.T.S, y.T.S)) ||
			!add(x.T.P.Key() != y.T.P.Key(), knownCollidePred(x.T.P, y.T.P)) ||
			!add(x.T.O.Key() != y.T.O.Key(), knownCollideObj(x.T.O, y.T.O)) {
			return nil
		}
	default:
		return nil
	}
	return ids
}

func hasBigInt(a anySpec) bool {
	big := func(l *model.LitSpec) bool {
		return l != nil && l.Kind == "int64" && (l.I >= 1<<55 || l.I < -(1<<55))
	}
	switch {
	case a.L != nil:
		return big(a.L)
	case a.O != nil:
		return big(a.O.L)
	case a.T != nil:
		return big(a.T.O.L)
	}
	return false
}

func checkC06(ctx *pbt.Ctx, c c06Case) error {
	ctx.Label("how:" + c.How)
	x, err := c.X.build()
	if err != nil {
		return fmt.Errorf("generator produced unconstructible x: %v", err)
	}
	y, err := c.Y.build()
	if err != nil {
		return fmt.Errorf("generator produced unconstructible y: %v", err)
	}
	kx, ky := c.X.key(), c.Y.key()
	ux, errx := safeUUID(x)
	uy, erry := safeUUID(y)
	for i, e := range []error{errx, erry} {
		if e == nil {
			continue
		}
		v := c.X
		if i == 1 {
			v = c.Y
		}
		if hasBigInt(v) && ctx.Known("KF-C06-INT-VARINT") {
			return nil
		}
		return fmt.Errorf("UUID not defined for a constructible value %s: %v", v.key(), e)
	}
	// definedness + stability: repeated call gives the same UUID
	ux2, _ := safeUUID(x)
	if !uuid.Equal(ux, ux2) {
		return fmt.Errorf("UUID of %s differs between two calls: %v vs %v", kx, ux, ux2)
	}
	eq := uuid.Equal(ux, uy)
	same := kx == ky
	if same {
		if c.How != "same" {
			ctx.Label("equal-by-key")
			ctx.Nontrivial() // equal values built differently (e.g. other zone)
		}
	} else if c.How != "independent" && c.How != "other" {
		ctx.Nontrivial()
	}
	if eq != same {
		if eq && !same {
			if ids := knownCollision(c.X, c.Y); len(ids) > 0 {
				all := true
				for _, id := range ids {
					if !pbt.FindingOpen(id) {
						all = false
					}
				}
				if all {
					ok := true
					for _, id := range ids {
						ok = ctx.Known(id) && ok
					}
					if ok {
						return nil
					}
				}
			}
			return fmt.Errorf("different values have the same UUID %v: %s vs %s", ux, kx, ky)
		}
		return fmt.Errorf("equal values have different UUIDs: %s -> %v, %s -> %v", kx, ux, ky, uy)
	}
	if c.X.T != nil {
		tx, ty := x.(*triple.Triple), y.(*triple.Triple)
		if tx.Equal(ty) != same || ty.Equal(tx) != same {
			return fmt.Errorf("Triple.Equal = %v but component equality = %v: %s vs %s", tx.Equal(ty), same, kx, ky)
		}
	}
	return nil
}

func TestC06(t *testing.T) {
	pbt.Run(t, "C06", "TestC06", genC06, checkC06)
}

// ---- every goroutine, every process ----

type c06Corpus struct {
	Vals []anySpec `json:"vals"`
}

func genC06Corpus(t *rapid.T) c06Corpus {
	n := rapid.IntRange(20, 60).Draw(t, "n")
	var c c06Corpus
	for i := 0; i < n; i++ {
		switch rapid.IntRange(0, 3).Draw(t, "k") {
		case 0:
			v := gen.Node().Draw(t, "n")
			c.Vals = append(c.Vals, anySpec{N: &v})
		case 1:
			v := gen.Pred().Draw(t, "p")
			c.Vals = append(c.Vals, anySpec{P: &v})
		case 2:
			v := gen.Lit(true).Draw(t, "l")
			c.Vals = append(c.Vals, anySpec{L: &v})
		default:
			v := gen.Triple(true).Draw(t, "t")
			c.Vals = append(c.Vals, anySpec{T: &v})
		}
	}
	return c
}

func corpusUUIDs(c c06Corpus) []string {
	out := make([]string, len(c.Vals))
	for i, s := range c.Vals {
		v, err := s.build()
		if err != nil {
			out[i] = "builderr"
			continue
		}
		u, err := safeUUID(v)
		if err != nil {
			out[i] = "panic"
			continue
		}
		out[i] = u.String()
	}
	return out
}

func init() {
	isolate.Register("c06uuids", func(req []byte) []byte {
		var c c06Corpus
		if err := jsonUnmarshal(req, &c); err != nil {
			return jsonMarshal(map[string]string{"err": err.Error()})
		}
		return jsonMarshal(corpusUUIDs(c))
	})
}

func checkC06Corpus(ctx *pbt.Ctx, c c06Corpus) error {
	here := corpusUUIDs(c)
	// 8 goroutines concurrently
	var wg sync.WaitGroup
	res := make([][]string, 8)
	for g := 0; g < 8; g++ {
		wg.Add(1)
		go func(g int) {
			defer wg.Done()
			res[g] = corpusUUIDs(c)
		}(g)
	}
	wg.Wait()
	for g := range res {
		for i := range here {
			if res[g][i] != here[i] {
				return fmt.Errorf("UUID of %s differs in goroutine %d: %s vs %s", c.Vals[i].key(), g, res[g][i], here[i])
			}
		}
	}
	var other []string
	o, err := isolate.CallJSON("c06uuids", c, &other, 30*time.Second)
	if err != nil {
		return fmt.Errorf("infrastructure: %v", err)
	}
	if o.Crashed || o.Hung {
		return fmt.Errorf("second process died computing UUIDs: %s", o.Stderr)
	}
	if len(other) != len(here) {
		return fmt.Errorf("second process returned %d UUIDs for %d values", len(other), len(here))
	}
	for i := range here {
		if other[i] != here[i] {
			return fmt.Errorf("UUID of %s differs in a second process: %s vs %s", c.Vals[i].key(), other[i], here[i])
		}
	}
	ctx.Label("corpus")
	ctx.Nontrivial()
	return nil
}

func TestC06Process(t *testing.T) {
	pbt.Run(t, "C06", "TestC06Process", genC06Corpus, checkC06Corpus)
}
