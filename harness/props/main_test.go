package props

import (
	"testing"

	"verif/harness/isolate"
	"verif/harness/pbt"
)

func TestMain(m *testing.M) {
	pbt.Main(m, isolate.ServeIfWorker, isolate.Shutdown)
}
