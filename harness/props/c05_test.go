package props

// C05 — printed values parse back to equal values; graphs survive Write/Read.

import (
	"bytes"
	"context"
	"fmt"
	"sort"
	"strings"
	"testing"

	"verif/harness/gen"
	"verif/harness/model"
	"verif/harness/pbt"

	bwio "github.com/google/badwolf/io"
	"github.com/google/badwolf/storage"
	"github.com/google/badwolf/storage/memory"
	"github.com/google/badwolf/triple"
	"github.com/google/badwolf/triple/literal"
	"github.com/google/badwolf/triple/node"
	"github.com/google/badwolf/triple/predicate"
	"pgregory.net/rapid"
)

type c05Case struct {
	V anySpec `json:"v"`
}

func genC05(t *rapid.T) c05Case {
	var c c05Case
	switch rapid.IntRange(0, 9).Draw(t, "kind") {
	case 0:
		v := gen.Node().Draw(t, "n")
		if rapid.IntRange(0, 9).Draw(t, "space") == 0 {
			v.ID = v.ID + " " + v.ID // interior space: allowed by NewID and used in the docs' own examples
		}
		c.V.N = &v
	case 1, 2, 3:
		v := gen.Pred().Draw(t, "p")
		c.V.P = &v
	case 4, 5, 6:
		v := gen.Lit(true).Draw(t, "l")
		c.V.L = &v
	case 7:
		v := gen.Obj(true).Draw(t, "o")
		c.V.O = &v
	default:
		v := gen.Triple(true).Draw(t, "t")
		c.V.T = &v
	}
	return c
}

func hasDelimiterPayload(s string) bool {
	return strings.ContainsAny(s, "\"@[]^<>\t")
}

func specNontrivialC05(a anySpec) bool {
	chkT := func(ts *model.TimeSpec) bool { return ts != nil && (ts.Off != 0 || ts.Nsec != 0) }
	chkP := func(p *model.PredSpec) bool { return p != nil && (hasDelimiterPayload(p.ID) || chkT(p.Anchor)) }
	chkN := func(n *model.NodeSpec) bool {
		return n != nil && (hasDelimiterPayload(n.ID) || hasDelimiterPayload(n.Type))
	}
	chkL := func(l *model.LitSpec) bool {
		if l == nil {
			return false
		}
		switch l.Kind {
		case "text":
			return hasDelimiterPayload(l.S)
		case "int64":
			return l.I >= 1<<55 || l.I <= -(1<<55)
		case "float64":
			v := l.F &^ (1 << 63)
			return v == 0 && l.F != 0 || v >= 0x7ff0000000000000 || (v != 0 && v < 0x0010000000000000) || v > 0x7fe0000000000000
		}
		return false
	}
	chkO := func(o *model.ObjSpec) bool { return o != nil && (chkN(o.N) || chkP(o.P) || chkL(o.L)) }
	switch {
	case a.T != nil:
		return chkN(&a.T.S) || chkP(&a.T.P) || chkO(&a.T.O)
	default:
		return chkN(a.N) || chkP(a.P) || chkL(a.L) || chkO(a.O)
	}
}

// zone offsets of all anchors inside a value, in a fixed order
func anchorOffsets(a anySpec) []int {
	var out []int
	addP := func(p *model.PredSpec) {
		if p != nil && p.Anchor != nil {
			out = append(out, p.Anchor.Off)
		}
	}
	addO := func(o *model.ObjSpec) {
		if o != nil {
			addP(o.P)
		}
	}
	switch {
	case a.P != nil:
		addP(a.P)
	case a.O != nil:
		addO(a.O)
	case a.T != nil:
		addP(&a.T.P)
		addO(&a.T.O)
	}
	return out
}

func specOfReal(v interface{}) anySpec {
	switch x := v.(type) {
	case *node.Node:
		s := model.SpecOfNode(x)
		return anySpec{N: &s}
	case *predicate.Predicate:
		s := model.SpecOfPred(x)
		return anySpec{P: &s}
	case *literal.Literal:
		s := model.SpecOfLit(x)
		return anySpec{L: &s}
	case *triple.Object:
		s := model.SpecOfObj(x)
		return anySpec{O: &s}
	case *triple.Triple:
		s := model.SpecOfTriple(x)
		return anySpec{T: &s}
	}
	return anySpec{}
}

func isNilValue(v interface{}) bool {
	switch x := v.(type) {
	case *node.Node:
		return x == nil
	case *predicate.Predicate:
		return x == nil
	case *literal.Literal:
		return x == nil
	case *triple.Object:
		return x == nil
	case *triple.Triple:
		return x == nil
	}
	return v == nil
}

func parseLike(a anySpec, s string) (v interface{}, err error) {
	defer func() {
		if r := recover(); r != nil {
			err = fmt.Errorf("parser panicked: %v", r)
		}
	}()
	switch {
	case a.N != nil:
		return node.Parse(s)
	case a.P != nil:
		return predicate.Parse(s)
	case a.L != nil:
		return literal.DefaultBuilder().Parse(s)
	case a.O != nil:
		return triple.ParseObject(s, literal.DefaultBuilder())
	default:
		return triple.Parse(s, literal.DefaultBuilder())
	}
}

func stringOf(v interface{}) string { return v.(fmt.Stringer).String() }

func checkC05(ctx *pbt.Ctx, c c05Case) error {
	v, err := c.V.build()
	if err != nil {
		return fmt.Errorf("generator produced unconstructible value: %v", err)
	}
	if specNontrivialC05(c.V) {
		ctx.Nontrivial()
	}
	switch {
	case c.V.N != nil:
		ctx.Label("node")
	case c.V.P != nil:
		ctx.Label("pred")
	case c.V.L != nil:
		ctx.Label("lit:" + c.V.L.Kind)
	case c.V.O != nil:
		ctx.Label("obj")
	default:
		ctx.Label("triple")
	}
	text := stringOf(v)
	back, err := parseLike(c.V, text)
	if err != nil {
		return fmt.Errorf("printed form %q of %s does not parse back: %v", text, c.V.key(), err)
	}
	if isNilValue(back) {
		return fmt.Errorf("printed form %q of %s parses to (nil, nil)", text, c.V.key())
	}
	var bs anySpec
	var kerr error
	func() {
		defer func() {
			if r := recover(); r != nil {
				kerr = fmt.Errorf("parsed value of %q is malformed: %v", text, r)
			}
		}()
		bs = specOfReal(back)
		if bs.key() != c.V.key() {
			kerr = fmt.Errorf("printed form %q parses to a different value: want %s got %s", text, c.V.key(), bs.key())
		}
	}()
	if kerr != nil {
		return kerr
	}
	wo, go_ := anchorOffsets(c.V), anchorOffsets(bs)
	if fmt.Sprint(wo) != fmt.Sprint(go_) {
		return fmt.Errorf("zone offsets changed in round trip of %q: want %v got %v", text, wo, go_)
	}
	if t2 := stringOf(back); t2 != text {
		return fmt.Errorf("printing is not idempotent: %q then %q", text, t2)
	}
	// the same through a bounded literal builder whose bound the value respects (texts and blobs
	// are bounded by their length in bytes): building and parsing back must both succeed
	var lit *model.LitSpec
	switch {
	case c.V.L != nil:
		lit = c.V.L
	case c.V.O != nil && c.V.O.L != nil:
		lit = c.V.O.L
	case c.V.T != nil && c.V.T.O.L != nil:
		lit = c.V.T.O.L
	}
	if lit != nil && (lit.Kind == "text" || lit.Kind == "blob") {
		size := len(lit.S)
		if lit.Kind == "blob" {
			size = len(lit.Blob)
		}
		for _, bound := range []int{size, size + 1, 2*size + 3} {
			if bound <= 0 {
				continue
			}
			bb := literal.NewBoundedBuilder(bound)
			var bback interface{}
			var berr error
			func() {
				defer func() {
					if r := recover(); r != nil {
						berr = fmt.Errorf("panicked: %v", r)
					}
				}()
				switch {
				case c.V.L != nil:
					bback, berr = bb.Parse(text)
				case c.V.O != nil:
					bback, berr = triple.ParseObject(text, bb)
				default:
					bback, berr = triple.Parse(text, bb)
				}
			}()
			if berr != nil {
				return fmt.Errorf("printed form %q of %s (a %s of %d bytes) does not parse back through a builder bounded to %d bytes: %v", text, c.V.key(), lit.Kind, size, bound, berr)
			}
			if isNilValue(bback) || specOfReal(bback).key() != c.V.key() {
				return fmt.Errorf("printed form %q parses to a different value through a builder bounded to %d bytes", text, bound)
			}
			ctx.Label("bounded-builder")
		}
	}
	return nil
}

func TestC05(t *testing.T) {
	pbt.Run(t, "C05", "TestC05", genC05, checkC05)
}

// ---- graphs through the line protocol ----

type c05Graph struct {
	Triples []model.TripleSpec `json:"triples"`
	// Bulk > 0: that many further short triples (/b<nI> "seq"@[..] I), so that the text has
	// hundreds to thousands of lines and is several times the reader's buffer size
	Bulk int `json:"bulk,omitempty"`
}

func genC05Graph(t *rapid.T) c05Graph {
	n := rapid.IntRange(0, 30).Draw(t, "n")
	var g c05Graph
	if rapid.IntRange(0, 19).Draw(t, "bulk?") == 0 {
		g.Bulk = rapid.SampledFrom([]int{255, 256, 257, 300, 1024, 2500}).Draw(t, "bulk")
	}
	pool := rapid.SliceOfN(gen.Triple(false), 1, 8).Draw(t, "pool")
	for i := 0; i < n; i++ {
		switch rapid.IntRange(0, 9).Draw(t, "src") {
		case 0, 1, 2, 3, 4:
			g.Triples = append(g.Triples, gen.Triple(false).Draw(t, "t"))
		case 5:
			// long line class: a text literal that makes the line longer than 64 KiB
			tr := rapid.SampledFrom(pool).Draw(t, "tl")
			l := model.LitSpec{Kind: "text", S: strings.Repeat(rapid.SampledFrom([]string{"a", "é", "x y"}).Draw(t, "unit"), rapid.IntRange(65530, 66000).Draw(t, "len"))}
			tr.O = model.ObjSpec{L: &l}
			g.Triples = append(g.Triples, tr)
		case 6:
			// newline-in-text class
			tr := rapid.SampledFrom(pool).Draw(t, "tn")
			l := model.LitSpec{Kind: "text", S: rapid.SampledFrom([]string{"a\nb", "\n", "x\r\ny", "line1\n/t<a>\t\"p\"@[]\t/t<b>"}).Draw(t, "nl")}
			tr.O = model.ObjSpec{L: &l}
			g.Triples = append(g.Triples, tr)
		default:
			g.Triples = append(g.Triples, rapid.SampledFrom(pool).Draw(t, "tp"))
		}
	}
	return g
}

func listGraph(g storage.Graph) ([]string, error) {
	ch := make(chan *triple.Triple, 16)
	var out []string
	var err error
	done := make(chan struct{})
	go func() {
		defer close(done)
		err = g.Triples(context.Background(), storage.DefaultLookup, ch)
	}()
	for t := range ch {
		out = append(out, model.KeyTriple(t))
	}
	<-done
	sort.Strings(out)
	return out, err
}

func checkC05Graph(ctx *pbt.Ctx, c c05Graph) error {
	bg := context.Background()
	st := memory.NewStore()
	g, err := st.NewGraph(bg, "?src")
	if err != nil {
		return err
	}
	var ts []*triple.Triple
	long, newline := false, false
	for _, s := range c.Triples {
		// keep the float corner cases out of one store universe (DESIGN §2.5)
		if s.O.L != nil && s.O.L.Kind == "float64" && (s.O.L.F == 1<<63) {
			continue
		}
		t := s.MustTriple()
		if len(t.String()) > 65536 {
			long = true
		}
		if s.O.L != nil && s.O.L.Kind == "text" && strings.Contains(s.O.L.S, "\n") {
			newline = true
		}
		ts = append(ts, t)
	}
	for i := 0; i < c.Bulk; i++ {
		sp := model.TripleSpec{S: model.NodeSpec{Type: "/b", ID: fmt.Sprintf("n%d", i)}, P: model.PredSpec{ID: "seq"}, O: model.ObjSpec{L: &model.LitSpec{Kind: "int64", I: int64(i)}}}
		if i%3 == 0 {
			sp.P.Anchor = &model.TimeSpec{Sec: 1136214245 + int64(i), Nsec: i % 1000, Off: 3600 * (i % 3)}
		}
		ts = append(ts, sp.MustTriple())
	}
	if c.Bulk > 0 {
		ctx.Label("bulk")
	}
	if err := g.AddTriples(bg, ts); err != nil {
		return fmt.Errorf("AddTriples: %v", err)
	}
	stored, err := listGraph(g)
	if err != nil {
		return err
	}
	// The number of triples the store holds is what both operations must report
	// (UUID collisions of the C06 findings may merge generated triples; C05 is
	// about the text round trip, so the store's own listing is the reference).
	var buf bytes.Buffer
	nw, err := bwio.WriteGraph(bg, &buf, g)
	if err != nil {
		return fmt.Errorf("WriteGraph failed: %v", err)
	}
	if nw != len(stored) {
		return fmt.Errorf("WriteGraph reported %d triples, graph holds %d", nw, len(stored))
	}
	g2, err := st.NewGraph(bg, "?dst")
	if err != nil {
		return err
	}
	nr, err := bwio.ReadIntoGraph(bg, g2, bytes.NewReader(buf.Bytes()), literal.DefaultBuilder())
	if newline {
		ctx.Label("newline-in-text")
		back, _ := listGraph(g2)
		if err != nil || nr != len(stored) || strings.Join(back, "\n") != strings.Join(stored, "\n") {
			if ctx.Known("KF-C05-TEXT-NEWLINE") {
				return nil
			}
		}
	}
	if err != nil {
		return fmt.Errorf("ReadIntoGraph failed on text written by WriteGraph: %v", err)
	}
	back, err := listGraph(g2)
	if err != nil {
		return err
	}
	if nr != len(stored) {
		return fmt.Errorf("ReadIntoGraph reported %d triples, %d were written (graph now holds %d)", nr, len(stored), len(back))
	}
	if strings.Join(back, "\n") != strings.Join(stored, "\n") {
		return fmt.Errorf("graph changed in Write/Read round trip:\nwritten %v\nread    %v", stored, back)
	}
	if long {
		ctx.Label("long-line")
	}
	if len(stored) >= 2 {
		ctx.Nontrivial()
	}
	ctx.Sample(map[string]interface{}{"n_triples": len(stored), "long_line": long, "first": firstN(stored, 2)})
	return nil
}

func firstN(s []string, n int) []string {
	if len(s) > n {
		return s[:n]
	}
	return s
}

func TestC05Graph(t *testing.T) {
	pbt.Run(t, "C05", "TestC05Graph", genC05Graph, checkC05Graph)
}
