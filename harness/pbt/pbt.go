// Package pbt is the small runtime shared by all properties: a property is a
// pure function check(ctx, case) over a JSON-serialisable case; cases are drawn
// with rapid; every evaluation is classified (labels, non-trivial, known-finding
// hits); failures are written to $VERIF_OUT/lastfail.json (the last write is
// rapid's final, minimal re-run); statistics go to $VERIF_OUT/stats.json.
package pbt

import (
	"encoding/binary"
	"encoding/json"
	"fmt"
	"hash/fnv"
	"os"
	"path/filepath"
	"runtime/debug"
	"sort"
	"strconv"
	"sync"
	"testing"
	"time"

	"pgregory.net/rapid"
)

// Ctx collects the classification of one evaluation.
type Ctx struct {
	labels     []string
	nontrivial bool
	hits       []string
	excluded   []string
	sample     interface{}
	replay     bool
}

// Label adds a class label to the case.
func (c *Ctx) Label(s string) { c.labels = append(c.labels, s) }

// Labelf adds a formatted class label.
func (c *Ctx) Labelf(format string, a ...interface{}) {
	c.labels = append(c.labels, fmt.Sprintf(format, a...))
}

// Nontrivial marks the case as non-trivial by the property's stated rule.
func (c *Ctx) Nontrivial() { c.nontrivial = true }

// IsNontrivial reports the mark.
func (c *Ctx) IsNontrivial() bool { return c.nontrivial }

// Sample overrides what is rendered as the sample for this case (default: the case).
func (c *Ctx) Sample(v interface{}) { c.sample = v }

// Known reports whether the mismatch just observed belongs to the open known
// finding id; if so it is counted and the caller continues the search. With
// absorption disabled (witness replay) or the finding not open it returns false
// and the caller reports the mismatch.
func (c *Ctx) Known(id string) bool {
	if !FindingOpen(id) || os.Getenv("VERIF_NO_ABSORB") == "1" {
		return false
	}
	c.hits = append(c.hits, id)
	return true
}

// Excluded records that part of the case was left out by construction because of
// the open finding id (so that the search continues behind it).
func (c *Ctx) Excluded(id string) { c.excluded = append(c.excluded, id) }

// Replaying tells whether this evaluation is a replay of a stored case.
func (c *Ctx) Replaying() bool { return c.replay }

// ---- known findings ----

type findingEntry struct {
	ID       string `json:"id"`
	Property string `json:"property"`
	Status   string `json:"status"`
}

var (
	findOnce sync.Once
	findOpen map[string]bool
	findAll  map[string]string
)

func loadFindings() {
	findOpen = map[string]bool{}
	findAll = map[string]string{}
	p := os.Getenv("VERIF_FINDINGS")
	if p == "" {
		p = "/verif/known_findings.json"
	}
	b, err := os.ReadFile(p)
	if err != nil {
		return
	}
	var doc struct {
		Findings []findingEntry `json:"findings"`
	}
	if err := json.Unmarshal(b, &doc); err != nil {
		fmt.Fprintf(os.Stderr, "known findings file unreadable: %v\n", err)
		os.Exit(2)
	}
	for _, f := range doc.Findings {
		findAll[f.ID] = f.Status
		if f.Status == "open" {
			findOpen[f.ID] = true
		}
	}
}

// FindingOpen tells whether the finding id is listed as open.
func FindingOpen(id string) bool {
	findOnce.Do(loadFindings)
	return findOpen[id]
}

// ---- statistics ----

type unitStats struct {
	Unit        string                 `json:"unit"`
	Evaluations int                    `json:"evaluations"`
	Nontrivial  int                    `json:"nontrivial"`
	Labels      map[string]int         `json:"labels"`
	KnownHits   map[string]int         `json:"known_finding_hits"`
	Excluded    map[string]int         `json:"excluded_by_finding"`
	Samples     []json.RawMessage      `json:"samples"`
	Extra       map[string]interface{} `json:"extra,omitempty"`
	Exhaustive  bool                   `json:"exhaustive,omitempty"`
	hashes      map[uint64]struct{}
	lowSamples  []hashedSample
}

type hashedSample struct {
	h uint64
	j json.RawMessage
}

var (
	statMu sync.Mutex
	stats  = map[string]*unitStats{}
)

func unit(name string) *unitStats {
	u := stats[name]
	if u == nil {
		u = &unitStats{Unit: name, Labels: map[string]int{}, KnownHits: map[string]int{}, Excluded: map[string]int{}, hashes: map[uint64]struct{}{}, Extra: map[string]interface{}{}}
		stats[name] = u
	}
	return u
}

const maxSampleBytes = 1500

func render(v interface{}) json.RawMessage {
	b, err := json.Marshal(v)
	if err != nil {
		b, _ = json.Marshal(fmt.Sprintf("%+v", v))
	}
	if len(b) > maxSampleBytes {
		b, _ = json.Marshal(string(b[:maxSampleBytes]) + "…(truncated)")
	}
	return b
}

func hashCase(v interface{}) uint64 {
	b, err := json.Marshal(v)
	if err != nil {
		b = []byte(fmt.Sprintf("%+v", v))
	}
	h := fnv.New64a()
	h.Write(b)
	return h.Sum64()
}

// Record adds one evaluation to the unit's statistics.
func Record(unitName string, ctx *Ctx, c interface{}) {
	statMu.Lock()
	defer statMu.Unlock()
	u := unit(unitName)
	u.Evaluations++
	for _, l := range ctx.labels {
		u.Labels[l]++
	}
	for _, h := range ctx.hits {
		u.KnownHits[h]++
	}
	for _, h := range ctx.excluded {
		u.Excluded[h]++
	}
	if ctx.nontrivial {
		u.Nontrivial++
		h := hashCase(c)
		if _, seen := u.hashes[h]; !seen {
			u.hashes[h] = struct{}{}
			s := ctx.sample
			if s == nil {
				s = c
			}
			if len(u.Samples) < 3 {
				u.Samples = append(u.Samples, render(s))
			} else if len(u.lowSamples) < 3 || h < u.lowSamples[len(u.lowSamples)-1].h {
				// deterministic "random" samples: the three smallest hashes
				u.lowSamples = append(u.lowSamples, hashedSample{h, render(s)})
				sort.Slice(u.lowSamples, func(i, j int) bool { return u.lowSamples[i].h < u.lowSamples[j].h })
				if len(u.lowSamples) > 3 {
					u.lowSamples = u.lowSamples[:3]
				}
			}
		}
	}
}

// SetExtra stores a free-form measured value in the unit's statistics.
func SetExtra(unitName, key string, v interface{}) {
	statMu.Lock()
	defer statMu.Unlock()
	unit(unitName).Extra[key] = v
}

// AddExtra adds to an integer counter in the unit's statistics.
func AddExtra(unitName, key string, n int) {
	statMu.Lock()
	defer statMu.Unlock()
	u := unit(unitName)
	cur, _ := u.Extra[key].(int)
	u.Extra[key] = cur + n
}

// SetExhaustive marks the unit as a complete enumeration of its stated space.
func SetExhaustive(unitName string) {
	statMu.Lock()
	defer statMu.Unlock()
	unit(unitName).Exhaustive = true
}

// OutDir returns the directory for this process's outputs.
func OutDir() string {
	d := os.Getenv("VERIF_OUT")
	if d == "" {
		d = filepath.Join(os.TempDir(), "verif-out-"+strconv.Itoa(os.Getpid()))
	}
	os.MkdirAll(d, 0o755)
	return d
}

// Flush writes stats.json and hashes.bin. Called from TestMain.
func Flush() {
	statMu.Lock()
	defer statMu.Unlock()
	if len(stats) == 0 {
		return
	}
	d := OutDir()
	var all []*unitStats
	var hb []byte
	names := make([]string, 0, len(stats))
	for n := range stats {
		names = append(names, n)
	}
	sort.Strings(names)
	for _, n := range names {
		u := stats[n]
		for _, ls := range u.lowSamples {
			u.Samples = append(u.Samples, ls.j)
		}
		u.lowSamples = nil
		all = append(all, u)
		var nh [8]byte
		for h := range u.hashes {
			// mix the unit name in so that equal cases of different units stay distinct
			binary.LittleEndian.PutUint64(nh[:], h^hashCase(n))
			hb = append(hb, nh[:]...)
		}
	}
	b, _ := json.MarshalIndent(all, "", " ")
	os.WriteFile(filepath.Join(d, "stats.json"), b, 0o644)
	os.WriteFile(filepath.Join(d, "hashes.bin"), hb, 0o644)
}

// ---- failures ----

// FailRecord is what a failing evaluation leaves behind for the driver.
type FailRecord struct {
	Property string          `json:"property"`
	Unit     string          `json:"unit"`
	Message  string          `json:"message"`
	Case     json.RawMessage `json:"case"`
}

func writeFail(prop, unitName, msg string, c interface{}) {
	cb, err := json.Marshal(c)
	if err != nil {
		cb, _ = json.Marshal(fmt.Sprintf("%+v", c))
	}
	b, _ := json.MarshalIndent(FailRecord{Property: prop, Unit: unitName, Message: msg, Case: cb}, "", " ")
	os.WriteFile(filepath.Join(OutDir(), "lastfail.json"), b, 0o644)
}

// WriteFail lets plain (non-rapid) units report a failing case.
func WriteFail(prop, unitName, msg string, c interface{}) { writeFail(prop, unitName, msg, c) }

// ---- hang watchdog for in-process units whose property includes termination ----

var (
	hangMu    sync.Mutex
	hangBound time.Duration // 0: off
	hangProp  string
	hangUnit  string
	hangCase  interface{}
	hangStart time.Time
	hangOnce  sync.Once
)

// HangIsViolation makes a single evaluation of this process that runs longer than bound a
// reported failure ("did not terminate"): the case is written like any failing case and the
// process exits non-zero. Only for units whose cases take far less than bound (micro- to
// milliseconds) and whose property states termination.
func HangIsViolation(bound time.Duration) {
	hangMu.Lock()
	hangBound = bound
	hangMu.Unlock()
	hangOnce.Do(func() {
		go func() {
			for {
				time.Sleep(time.Second)
				hangMu.Lock()
				if hangBound > 0 && hangCase != nil && time.Since(hangStart) > hangBound {
					writeFail(hangProp, hangUnit, fmt.Sprintf("the call did not terminate within %v on this input", hangBound), hangCase)
					fmt.Fprintf(os.Stderr, "%s/%s: evaluation did not terminate within %v\n", hangProp, hangUnit, hangBound)
					os.Exit(3)
				}
				hangMu.Unlock()
			}
		}()
	})
}

func hangEnter(prop, unitName string, c interface{}) {
	hangMu.Lock()
	if hangBound > 0 {
		hangProp, hangUnit, hangCase, hangStart = prop, unitName, c, time.Now()
	}
	hangMu.Unlock()
}

func hangLeave() {
	hangMu.Lock()
	hangCase = nil
	hangMu.Unlock()
}

func safeCheck[C any](check func(*Ctx, C) error, ctx *Ctx, c C) (err error) {
	defer func() {
		if r := recover(); r != nil {
			err = fmt.Errorf("harness-visible panic in check: %v\n%s", r, debug.Stack())
		}
	}()
	return check(ctx, c)
}

// ReplayPath returns the replay file requested for this process, if any.
func ReplayPath() string { return os.Getenv("VERIF_REPLAY") }

// Run drives one property unit. In replay mode (VERIF_REPLAY set and the record's
// unit matches) it evaluates check once on the stored case without rapid.
func Run[C any](t *testing.T, prop, unitName string, gen func(*rapid.T) C, check func(*Ctx, C) error) {
	if p := ReplayPath(); p != "" {
		replay(t, p, prop, unitName, check)
		return
	}
	rapid.Check(t, func(rt *rapid.T) {
		c := gen(rt)
		ctx := &Ctx{}
		hangEnter(prop, unitName, c)
		err := safeCheck(check, ctx, c)
		hangLeave()
		if err != nil {
			writeFail(prop, unitName, err.Error(), c)
			rt.Fatalf("%s/%s: %v", prop, unitName, err)
		}
		Record(unitName, ctx, c)
	})
}

// Eval evaluates one case of a plain (enumerating) unit: records statistics and
// on failure writes the failure record and fails the test immediately.
func Eval[C any](t *testing.T, prop, unitName string, c C, check func(*Ctx, C) error) {
	ctx := &Ctx{}
	hangEnter(prop, unitName, c)
	err := safeCheck(check, ctx, c)
	hangLeave()
	if err != nil {
		writeFail(prop, unitName, err.Error(), c)
		t.Fatalf("%s/%s: %v", prop, unitName, err)
	}
	Record(unitName, ctx, c)
}

func replay[C any](t *testing.T, path, prop, unitName string, check func(*Ctx, C) error) {
	b, err := os.ReadFile(path)
	if err != nil {
		fmt.Fprintf(os.Stderr, "replay: %v\n", err)
		os.Exit(2)
	}
	var rec FailRecord
	if err := json.Unmarshal(b, &rec); err != nil {
		fmt.Fprintf(os.Stderr, "replay: bad record %s: %v\n", path, err)
		os.Exit(2)
	}
	if rec.Unit != unitName {
		t.Skipf("replay is for unit %s", rec.Unit)
		return
	}
	var c C
	if err := json.Unmarshal(rec.Case, &c); err != nil {
		fmt.Fprintf(os.Stderr, "replay: bad case in %s: %v\n", path, err)
		os.Exit(2)
	}
	ctx := &Ctx{replay: true}
	os.WriteFile(filepath.Join(OutDir(), "replayed"), []byte(unitName), 0o644)
	hangEnter(prop, unitName, c)
	defer hangLeave()
	if err := safeCheck(check, ctx, c); err != nil {
		writeFail(prop, unitName, err.Error(), c)
		t.Fatalf("REPLAY-FAIL %s/%s: %v", prop, unitName, err)
	}
}

// Shard returns this process's shard index and the number of shards (for plain
// enumerating units).
func Shard() (int, int) {
	i, _ := strconv.Atoi(os.Getenv("VERIF_SHARD"))
	n, _ := strconv.Atoi(os.Getenv("VERIF_NSHARDS"))
	if n <= 0 {
		n = 1
	}
	return i, n
}

// Thorough tells whether the thorough tier was requested.
func Thorough() bool { return os.Getenv("VERIF_TIER") == "thorough" }

// Seed returns the VERIF_SEED-derived value for units that need a number
// outside rapid (e.g. choosing a stratified sample of an enumeration).
func Seed() uint64 {
	s, _ := strconv.ParseUint(os.Getenv("VERIF_SEED"), 10, 64)
	if s == 0 {
		s = 1
	}
	return s
}

// Main is the TestMain body shared by the props package.
func Main(m *testing.M, worker func() bool, cleanup func()) {
	if worker != nil && worker() {
		return
	}
	start := time.Now()
	code := m.Run()
	SetExtraIfAny("wall_s", time.Since(start).Seconds())
	Flush()
	if cleanup != nil {
		cleanup()
	}
	os.Exit(code)
}

// SetExtraIfAny stores a value on every unit that recorded something.
func SetExtraIfAny(key string, v interface{}) {
	statMu.Lock()
	defer statMu.Unlock()
	for _, u := range stats {
		u.Extra[key] = v
	}
}

// RecordBulk adds the counts of an enumerating unit whose cases are evaluated in
// bulk (inside a worker): n evaluations of which nontrivial are non-trivial; the
// enumeration produces each input once, so every non-trivial one is distinct.
func RecordBulk(unitName string, n, nontrivial int, what string, samples []interface{}) {
	statMu.Lock()
	defer statMu.Unlock()
	u := unit(unitName)
	shard, _ := Shard()
	base := hashCase(fmt.Sprintf("%s/%d/%d", unitName, shard, len(u.hashes)))
	for i := 0; i < nontrivial; i++ {
		u.hashes[base+uint64(i)*0x9e3779b97f4a7c15] = struct{}{}
	}
	u.Evaluations += n
	u.Nontrivial += nontrivial
	u.Labels[what] += n
	for _, s := range samples {
		if len(u.Samples) < 6 {
			u.Samples = append(u.Samples, render(s))
		}
	}
}

// NewCtx returns a fresh classification context (debugging helpers).
func NewCtx() *Ctx { return &Ctx{} }
