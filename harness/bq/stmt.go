package bq

import (
	"fmt"
	"strings"

	"verif/harness/gen"
	"verif/harness/model"

	"pgregory.net/rapid"
)

// ---- templates for CONSTRUCT / DECONSTRUCT ----

// TPos is one position of a construct template.
type TPos struct {
	Node     *model.NodeSpec `json:"node,omitempty"`
	Blank    string          `json:"blank,omitempty"` // _:label
	Lit      *model.LitSpec  `json:"lit,omitempty"`
	Pred     *model.PredSpec `json:"pred,omitempty"`
	AnchorID string          `json:"aid,omitempty"`
	AnchorB  string          `json:"ab,omitempty"`
	Binding  string          `json:"b,omitempty"`
}

func (p TPos) String() string {
	switch {
	case p.Node != nil:
		return FmtNode(*p.Node)
	case p.Blank != "":
		return "_:" + p.Blank
	case p.Lit != nil:
		return FmtLit(*p.Lit)
	case p.Pred != nil:
		return FmtPred(*p.Pred)
	case p.AnchorID != "":
		return fmt.Sprintf("%q@[%s]", p.AnchorID, p.AnchorB)
	}
	return p.Binding
}

// TPair is a predicate-object pair of a template clause.
type TPair struct {
	P TPos `json:"p"`
	O TPos `json:"o"`
}

// TClause is one template clause: subject and one or more pairs (';' = reification).
type TClause struct {
	S     TPos    `json:"s"`
	Pairs []TPair `json:"pairs"`
}

func (c TClause) String() string {
	var parts []string
	for _, p := range c.Pairs {
		parts = append(parts, p.P.String()+" "+p.O.String())
	}
	return c.S.String() + " " + strings.Join(parts, " ; ")
}

// Construct is a CONSTRUCT (or DECONSTRUCT) statement.
type Construct struct {
	De       bool      `json:"de,omitempty"`
	Template []TClause `json:"template"`
	Into     []string  `json:"into"`
	From     []string  `json:"from"`
	Clauses  []Clause  `json:"clauses"`
	Having   *Expr     `json:"having,omitempty"`
}

func (c Construct) String() string {
	var tp []string
	for _, t := range c.Template {
		tp = append(tp, t.String())
	}
	kw, into := "construct", "into"
	if c.De {
		kw, into = "deconstruct", "in"
	}
	s := fmt.Sprintf("%s { %s } %s %s from %s where { %s }", kw, strings.Join(tp, " . "), into, strings.Join(c.Into, ", "), strings.Join(c.From, ", "), ClausesString(c.Clauses))
	if c.Having != nil {
		s += " having " + c.Having.String()
	}
	return s + ";"
}

// TemplateBindings lists the bindings a template uses.
func (c Construct) TemplateBindings() []string {
	seen := map[string]bool{}
	var out []string
	add := func(p TPos) {
		for _, b := range []string{p.Binding, p.AnchorB} {
			if b != "" && !seen[b] {
				seen[b] = true
				out = append(out, b)
			}
		}
	}
	for _, t := range c.Template {
		add(t.S)
		for _, p := range t.Pairs {
			add(p.P)
			add(p.O)
		}
	}
	return out
}

// DataStmt is INSERT DATA / DELETE DATA.
type DataStmt struct {
	Delete  bool               `json:"delete,omitempty"`
	Graphs  []string           `json:"graphs"`
	Triples []model.TripleSpec `json:"triples"`
}

func (d DataStmt) String() string {
	var ts []string
	for _, t := range d.Triples {
		ts = append(ts, FmtTriple(t))
	}
	if d.Delete {
		return fmt.Sprintf("delete data from %s { %s };", strings.Join(d.Graphs, ", "), strings.Join(ts, " . "))
	}
	return fmt.Sprintf("insert data into %s { %s };", strings.Join(d.Graphs, ", "), strings.Join(ts, " . "))
}

// GraphStmt is CREATE GRAPH / DROP GRAPH.
type GraphStmt struct {
	Drop   bool     `json:"drop,omitempty"`
	Graphs []string `json:"graphs"`
}

func (g GraphStmt) String() string {
	if g.Drop {
		return "drop graph " + strings.Join(g.Graphs, ", ") + ";"
	}
	return "create graph " + strings.Join(g.Graphs, ", ") + ";"
}

// ---- loose generators (no type-correctness; used where only robustness matters) ----

// BindingKinds gives, for every binding of a pattern, the set of value
// sub-kinds it takes in the reference solutions (used to build type-correct
// aggregates, comparisons and orderings).
func BindingKinds(sols []Env) map[string]map[string]bool {
	out := map[string]map[string]bool{}
	for _, e := range sols {
		for k, v := range e {
			if out[k] == nil {
				out[k] = map[string]bool{}
			}
			out[k][v.SubKind()] = true
		}
	}
	return out
}

// GenOptionalize marks some non-first clauses OPTIONAL.
func (g *QGen) GenOptionalize(cs []Clause, pct int) []Clause {
	out := append([]Clause{}, cs...)
	for i := 1; i < len(out); i++ {
		if g.maybe(pct, "optional") {
			out[i].Optional = true
		}
	}
	return out
}

// GenExprLoose draws a HAVING expression over the given bindings without regard to kinds.
func (g *QGen) GenExprLoose(bindings []string, depth int) *Expr {
	if len(bindings) == 0 {
		bindings = []string{"?zz"}
	}
	if depth <= 0 || g.maybe(50, "leaf") {
		e := &Expr{Op: "cmp", Left: gen.Pick(g.T, bindings, "hl"), Cmp: gen.Pick(g.T, []string{"=", "<", ">"}, "hop")}
		switch gen.Uniform(g.T, 5, "hr") {
		case 0:
			e.RB = gen.Pick(g.T, bindings, "hrb")
		case 1:
			l := gen.Pick(g.T, g.U.Lits, "hrl")
			e.RLit = &l
		case 2:
			n := gen.Pick(g.T, g.U.Nodes, "hrn")
			e.RNode = &n
		case 3:
			a := gen.Pick(g.T, g.U.Anchors, "hrt")
			e.RTime = &a
		default:
			p := g.U.GenPred(g.T, "hrp")
			e.RPred = &p
		}
		return e
	}
	switch gen.Uniform(g.T, 4, "hk") {
	case 0:
		return &Expr{Op: "not", A: g.GenExprLoose(bindings, 0)}
	case 1:
		return &Expr{Op: "par", A: g.GenExprLoose(bindings, depth-1)}
	default:
		b := g.GenExprLoose(bindings, depth-1)
		if b.Op == "and" || b.Op == "or" {
			b = &Expr{Op: "par", A: b}
		}
		return &Expr{Op: gen.Pick(g.T, []string{"and", "or"}, "hbool"), A: g.GenExprLoose(bindings, depth-1), B: b}
	}
}

var hostileLimits = []string{`"0"^^type:int64`, `"1"^^type:int64`, `"2"^^type:int64`, `"-1"^^type:int64`, `"1.5"^^type:float64`, `"x"^^type:text`, `"true"^^type:bool`,
	`"9223372036854775807"^^type:int64`, `"9223372036854775808"^^type:int64`, `"3"^^type:INT64`, `"[1]"^^type:blob`, `""^^type:blob`, `"-9223372036854775808"^^type:int64`}

// GenSelectLoose draws a SELECT with every optional part, not necessarily valid.
func (g *QGen) GenSelectLoose(from []string) Query {
	var q Query
	q.From = from
	n := 1 + gen.Uniform(g.T, 3, "nclauses")
	for i := 0; i < n; i++ {
		q.Clauses = append(q.Clauses, g.GenClauseMixed(fmt.Sprintf("c%d", i), ClauseOpts{}))
	}
	q.Clauses = g.GenOptionalize(q.Clauses, 25)
	if g.maybe(25, "boundalias") {
		// a clause bounded by bindings: "id"@[?lo,?hi], with bindings that hold times,
		// other values, or that no clause provides
		names := append(AllBindings(q.Clauses), "?nolo", "?nohi")
		i := gen.Uniform(g.T, len(q.Clauses), "baclause")
		b := &Bound{ID: gen.Pick(g.T, g.U.PredIDs, "baid")}
		switch gen.Uniform(g.T, 3, "basides") {
		case 0:
			b.LoB = gen.Pick(g.T, names, "balo")
		case 1:
			b.HiB = gen.Pick(g.T, names, "bahi")
		default:
			b.LoB, b.HiB = gen.Pick(g.T, names, "balo"), gen.Pick(g.T, names, "bahi")
		}
		if g.maybe(50, "baobj") {
			q.Clauses[i].O = OPos{Bound: b}
		} else {
			q.Clauses[i].P = PPos{Bound: b}
		}
		// sometimes a second bounded clause, also one that waits for a binding of the first
		// while the first waits for one of its own (no evaluation order exists: must be an error)
		if len(q.Clauses) > 1 && g.maybe(45, "basecond") {
			j := (i + 1 + gen.Uniform(g.T, len(q.Clauses)-1, "baclause2")) % len(q.Clauses)
			b2 := &Bound{ID: gen.Pick(g.T, g.U.PredIDs, "baid2")}
			mine, theirs := q.Clauses[i].Bindings(), q.Clauses[j].Bindings()
			if g.maybe(60, "bamutual") && len(mine) > 0 && len(theirs) > 0 {
				b2.LoB = gen.Pick(g.T, mine, "bamine")
				nb := *b
				nb.LoB, nb.HiB = gen.Pick(g.T, theirs, "batheirs"), ""
				if q.Clauses[i].P.Bound != nil {
					q.Clauses[i].P.Bound = &nb
				} else {
					q.Clauses[i].O.Bound = &nb
				}
			} else {
				b2.HiB = gen.Pick(g.T, names, "bahi2")
			}
			q.Clauses[j].P = PPos{Bound: b2}
		}
	}
	all := AllBindings(q.Clauses)
	if len(all) == 0 {
		all = []string{"?none"}
	}
	if g.maybe(40, "grouped") {
		// grouped projection: keys (bindings, some with alias) + aggregates
		nk := 1 + gen.Uniform(g.T, 2, "nkeys")
		for i := 0; i < nk; i++ {
			p := Proj{Binding: gen.Pick(g.T, all, "gk")}
			if g.maybe(40, "gkas") {
				g.fresh++
				p.Alias = fmt.Sprintf("?k%d", g.fresh)
			}
			q.Proj = append(q.Proj, p)
			q.GroupBy = append(q.GroupBy, p.OutName())
		}
		na := gen.Uniform(g.T, 3, "naggs")
		for i := 0; i < na; i++ {
			g.fresh++
			q.Proj = append(q.Proj, Proj{Binding: gen.Pick(g.T, all, "ab"), Alias: fmt.Sprintf("?n%d", g.fresh), Op: gen.Pick(g.T, []string{"count", "countd", "sum"}, "aop")})
		}
		if g.maybe(10, "nogroupby") {
			q.GroupBy = nil
		}
	} else {
		q.Proj = g.GenProjection(all)
	}
	var outs []string
	for _, p := range q.Proj {
		outs = append(outs, p.OutName())
	}
	if g.maybe(40, "ordered") {
		nk := 1 + gen.Uniform(g.T, 3, "nord")
		for i := 0; i < nk; i++ {
			q.OrderBy = append(q.OrderBy, OrderKey{Binding: gen.Pick(g.T, outs, "ok"), Dir: gen.Pick(g.T, []string{"", "asc", "desc"}, "odir")})
		}
	}
	if g.maybe(35, "having") {
		q.Having = g.GenExprLoose(outs, 2)
	}
	if g.maybe(25, "global") {
		q.Global = g.GenGlobal()
	}
	if g.maybe(40, "limit") {
		l := gen.Pick(g.T, hostileLimits, "lim")
		q.Limit = &l
	}
	return q
}

// GenTPos draws a template position.
func (g *QGen) genTPos(kind byte, bindings []string, label string) TPos {
	switch kind {
	case 'S':
		switch gen.Uniform(g.T, 4, label+"k") {
		case 0:
			n := gen.Pick(g.T, g.U.Nodes, label+"n")
			return TPos{Node: &n}
		case 1:
			return TPos{Blank: gen.Pick(g.T, []string{"v", "w"}, label+"bl")}
		}
	case 'P':
		switch gen.Uniform(g.T, 4, label+"k") {
		case 0:
			p := g.U.GenPred(g.T, label+"p")
			return TPos{Pred: &p}
		case 1:
			if len(bindings) > 0 {
				return TPos{AnchorID: gen.Pick(g.T, g.U.PredIDs, label+"aid"), AnchorB: gen.Pick(g.T, bindings, label+"ab")}
			}
		}
	default:
		switch gen.Uniform(g.T, 6, label+"k") {
		case 0:
			n := gen.Pick(g.T, g.U.Nodes, label+"n")
			return TPos{Node: &n}
		case 1:
			l := gen.Pick(g.T, g.U.Lits, label+"l")
			return TPos{Lit: &l}
		case 2:
			p := g.U.GenPred(g.T, label+"p")
			return TPos{Pred: &p}
		case 3:
			return TPos{Blank: gen.Pick(g.T, []string{"v", "w"}, label+"bl")}
		}
	}
	if len(bindings) == 0 {
		return TPos{Binding: "?none"}
	}
	return TPos{Binding: gen.Pick(g.T, bindings, label+"b")}
}

// GenConstructLoose draws a CONSTRUCT/DECONSTRUCT statement, not necessarily valid.
func (g *QGen) GenConstructLoose(from, into []string, de bool) Construct {
	c := Construct{De: de, From: from, Into: into}
	n := 1 + gen.Uniform(g.T, 2, "nclauses")
	for i := 0; i < n; i++ {
		c.Clauses = append(c.Clauses, g.GenClauseMixed(fmt.Sprintf("c%d", i), ClauseOpts{}))
	}
	all := AllBindings(c.Clauses)
	nt := 1 + gen.Uniform(g.T, 3, "ntemplate")
	for i := 0; i < nt; i++ {
		tc := TClause{S: g.genTPos('S', all, fmt.Sprintf("t%ds", i))}
		np := 1
		if !de && g.maybe(35, "reify") {
			np = 2 + gen.Uniform(g.T, 2, "npairs")
		}
		for j := 0; j < np; j++ {
			tc.Pairs = append(tc.Pairs, TPair{P: g.genTPos('P', all, fmt.Sprintf("t%dp%d", i, j)), O: g.genTPos('O', all, fmt.Sprintf("t%do%d", i, j))})
		}
		if de && tc.S.Blank != "" {
			tc.S = TPos{Binding: "?none"}
			if len(all) > 0 {
				tc.S.Binding = all[0]
			}
		}
		c.Template = append(c.Template, tc)
	}
	if g.maybe(15, "chaving") {
		c.Having = g.GenExprLoose(all, 1)
	}
	return c
}

// GenDataLoose draws an INSERT/DELETE DATA statement.
func (g *QGen) GenDataLoose(graphs []string, del bool) DataStmt {
	d := DataStmt{Delete: del, Graphs: graphs}
	n := 1 + gen.Uniform(g.T, 5, "ndata")
	for i := 0; i < n; i++ {
		if tr, ok := g.someTriple("dt"); ok && g.maybe(50, "dstored") {
			d.Triples = append(d.Triples, tr)
		} else {
			d.Triples = append(d.Triples, g.U.GenTriple(g.T, "dnew"))
		}
	}
	return d
}

var _ = rapid.Bool
