// Package bq holds the serialisable BQL abstract syntax used by the generated
// checks, its printer (only documented lexeme forms are emitted) and the naive
// reference evaluator of the conjunctive fragment (DESIGN Appendix A).
package bq

import (
	"fmt"
	"strings"
	"time"

	"verif/harness/model"
)

// Bound is a clause-level time interval; each side may be absent.
type Bound struct {
	ID string          `json:"id"`
	Lo *model.TimeSpec `json:"lo,omitempty"`
	Hi *model.TimeSpec `json:"hi,omitempty"`
	// LoB / HiB: the side is a binding ("id"@[?lo,?hi]); outside the C03 fragment,
	// generated only where robustness is the subject (C08).
	LoB string `json:"lob,omitempty"`
	HiB string `json:"hib,omitempty"`
}

// SPos is the subject position of a clause.
type SPos struct {
	Node    *model.NodeSpec `json:"node,omitempty"`
	Binding string          `json:"b,omitempty"`
	As      string          `json:"as,omitempty"`
	Type    string          `json:"type,omitempty"`
	ID      string          `json:"id,omitempty"`
	IDFirst bool            `json:"id_first,omitempty"` // print ID before TYPE
}

// PPos is the predicate position of a clause.
type PPos struct {
	Pred     *model.PredSpec `json:"pred,omitempty"`  // "id"@[] or "id"@[T]
	AnchorID string          `json:"aid,omitempty"`   // "id"@[?t]
	AnchorB  string          `json:"ab,omitempty"`    //   the ?t
	Bound    *Bound          `json:"bound,omitempty"` // "id"@[lo,hi]
	Binding  string          `json:"b,omitempty"`     // ?p
	As       string          `json:"as,omitempty"`
	IDAlias  string          `json:"id,omitempty"`
	At       string          `json:"at,omitempty"`
}

// OPos is the object position of a clause.
type OPos struct {
	Node     *model.NodeSpec `json:"node,omitempty"`
	Lit      *model.LitSpec  `json:"lit,omitempty"`
	Pred     *model.PredSpec `json:"pred,omitempty"`
	AnchorID string          `json:"aid,omitempty"`
	AnchorB  string          `json:"ab,omitempty"`
	Bound    *Bound          `json:"bound,omitempty"`
	Binding  string          `json:"b,omitempty"`
	As       string          `json:"as,omitempty"`
	Type     string          `json:"type,omitempty"`
	ID       string          `json:"id,omitempty"`
	At       string          `json:"at,omitempty"`
	IDFirst  bool            `json:"id_first,omitempty"`
}

// Clause is one WHERE clause.
type Clause struct {
	Optional bool `json:"opt,omitempty"`
	S        SPos `json:"s"`
	P        PPos `json:"p"`
	O        OPos `json:"o"`
}

// Proj is one projection item.
type Proj struct {
	Binding string `json:"b"`
	Alias   string `json:"as,omitempty"`
	Op      string `json:"op,omitempty"` // "", count, countd, sum
}

// OrderKey is one ORDER BY key; Dir: "" (unspecified), "asc", "desc".
type OrderKey struct {
	Binding string `json:"b"`
	Dir     string `json:"dir,omitempty"`
}

// Global is BEFORE/AFTER/BETWEEN.
type Global struct {
	Kind string         `json:"kind"` // before after between
	T1   model.TimeSpec `json:"t1"`
	T2   model.TimeSpec `json:"t2,omitempty"`
}

// Expr is a HAVING expression.
type Expr struct {
	Op string `json:"op"` // cmp not and or par
	// cmp
	Left  string          `json:"l,omitempty"` // binding
	Cmp   string          `json:"cmp,omitempty"`
	RB    string          `json:"rb,omitempty"` // right binding
	RLit  *model.LitSpec  `json:"rlit,omitempty"`
	RNode *model.NodeSpec `json:"rnode,omitempty"`
	RPred *model.PredSpec `json:"rpred,omitempty"`
	RTime *model.TimeSpec `json:"rtime,omitempty"`
	Swap  bool            `json:"swap,omitempty"` // written `constant op binding`
	// not / par: A; and / or: A, B
	A *Expr `json:"a,omitempty"`
	B *Expr `json:"bb,omitempty"`
}

// Query is a SELECT statement.
type Query struct {
	Proj    []Proj     `json:"proj"`
	From    []string   `json:"from"`
	Clauses []Clause   `json:"clauses"`
	GroupBy []string   `json:"group_by,omitempty"`
	OrderBy []OrderKey `json:"order_by,omitempty"`
	Having  *Expr      `json:"having,omitempty"`
	Global  *Global    `json:"global,omitempty"`
	Limit   *string    `json:"limit,omitempty"` // literal text, e.g. "3"^^type:int64
}

// FmtTime prints an anchor the way BQL writes it.
func FmtTime(t model.TimeSpec) string { return t.Time().Format(time.RFC3339Nano) }

// FmtNode prints a node constant.
func FmtNode(n model.NodeSpec) string { return n.Type + "<" + n.ID + ">" }

// FmtPred prints a fully specified predicate.
func FmtPred(p model.PredSpec) string {
	if p.Anchor == nil {
		return fmt.Sprintf("%q@[]", p.ID)
	}
	return fmt.Sprintf("%q@[%s]", p.ID, FmtTime(*p.Anchor))
}

// FmtLit prints a literal constant.
func FmtLit(l model.LitSpec) string {
	v, err := l.Build()
	if err != nil {
		return "\"?\"^^type:text"
	}
	return v.String()
}

// FmtObj prints an object constant.
func FmtObj(o model.ObjSpec) string {
	switch {
	case o.N != nil:
		return FmtNode(*o.N)
	case o.P != nil:
		return FmtPred(*o.P)
	default:
		return FmtLit(*o.L)
	}
}

// FmtTriple prints a data triple for INSERT/DELETE.
func FmtTriple(t model.TripleSpec) string {
	return FmtNode(t.S) + " " + FmtPred(t.P) + " " + FmtObj(t.O)
}

func fmtBound(b Bound) string {
	lo, hi := b.LoB, b.HiB
	if b.Lo != nil {
		lo = FmtTime(*b.Lo)
	}
	if b.Hi != nil {
		hi = FmtTime(*b.Hi)
	}
	return fmt.Sprintf("%q@[%s,%s]", b.ID, lo, hi)
}

func (s SPos) String() string {
	var sb strings.Builder
	if s.Node != nil {
		sb.WriteString(FmtNode(*s.Node))
	} else {
		sb.WriteString(s.Binding)
	}
	if s.As != "" {
		sb.WriteString(" as " + s.As)
	}
	if s.IDFirst {
		if s.ID != "" {
			sb.WriteString(" id " + s.ID)
		}
		if s.Type != "" {
			sb.WriteString(" type " + s.Type)
		}
	} else {
		if s.Type != "" {
			sb.WriteString(" type " + s.Type)
		}
		if s.ID != "" {
			sb.WriteString(" id " + s.ID)
		}
	}
	return sb.String()
}

func (p PPos) String() string {
	var sb strings.Builder
	switch {
	case p.Pred != nil:
		sb.WriteString(FmtPred(*p.Pred))
	case p.AnchorID != "":
		sb.WriteString(fmt.Sprintf("%q@[%s]", p.AnchorID, p.AnchorB))
	case p.Bound != nil:
		sb.WriteString(fmtBound(*p.Bound))
	default:
		sb.WriteString(p.Binding)
	}
	if p.As != "" {
		sb.WriteString(" as " + p.As)
	}
	if p.IDAlias != "" {
		sb.WriteString(" id " + p.IDAlias)
	}
	if p.At != "" {
		sb.WriteString(" at " + p.At)
	}
	return sb.String()
}

func (o OPos) String() string {
	var sb strings.Builder
	switch {
	case o.Node != nil:
		sb.WriteString(FmtNode(*o.Node))
	case o.Lit != nil:
		sb.WriteString(FmtLit(*o.Lit))
	case o.Pred != nil:
		sb.WriteString(FmtPred(*o.Pred))
	case o.AnchorID != "":
		sb.WriteString(fmt.Sprintf("%q@[%s]", o.AnchorID, o.AnchorB))
	case o.Bound != nil:
		sb.WriteString(fmtBound(*o.Bound))
	default:
		sb.WriteString(o.Binding)
	}
	if o.As != "" {
		sb.WriteString(" as " + o.As)
	}
	if o.IDFirst {
		if o.ID != "" {
			sb.WriteString(" id " + o.ID)
		}
		if o.Type != "" {
			sb.WriteString(" type " + o.Type)
		}
	} else {
		if o.Type != "" {
			sb.WriteString(" type " + o.Type)
		}
		if o.ID != "" {
			sb.WriteString(" id " + o.ID)
		}
	}
	if o.At != "" {
		sb.WriteString(" at " + o.At)
	}
	return sb.String()
}

func (c Clause) String() string {
	s := c.S.String() + " " + c.P.String() + " " + c.O.String()
	if c.Optional {
		return "optional { " + s + " }"
	}
	return s
}

func (e *Expr) String() string {
	if e == nil {
		return ""
	}
	switch e.Op {
	case "cmp":
		r := e.RB
		switch {
		case e.RLit != nil:
			r = FmtLit(*e.RLit)
		case e.RNode != nil:
			r = FmtNode(*e.RNode)
		case e.RPred != nil:
			r = FmtPred(*e.RPred)
		case e.RTime != nil:
			r = FmtTime(*e.RTime)
		}
		if e.Swap {
			return r + " " + e.Cmp + " " + e.Left
		}
		return e.Left + " " + e.Cmp + " " + r
	case "not":
		return "not " + e.A.String()
	case "par":
		return "(" + e.A.String() + ")"
	case "and", "or":
		return "(" + e.A.String() + ") " + e.Op + " " + e.B.String()
	}
	return "?"
}

func (p Proj) String() string {
	switch p.Op {
	case "count":
		return "count(" + p.Binding + ") as " + p.Alias
	case "countd":
		return "count(distinct " + p.Binding + ") as " + p.Alias
	case "sum":
		return "sum(" + p.Binding + ") as " + p.Alias
	}
	if p.Alias != "" {
		return p.Binding + " as " + p.Alias
	}
	return p.Binding
}

// OutName is the name of the output column of a projection.
func (p Proj) OutName() string {
	if p.Alias != "" {
		return p.Alias
	}
	return p.Binding
}

// String prints the SELECT statement.
func (q Query) String() string {
	var sb strings.Builder
	sb.WriteString("select ")
	for i, p := range q.Proj {
		if i > 0 {
			sb.WriteString(", ")
		}
		sb.WriteString(p.String())
	}
	sb.WriteString(" from " + strings.Join(q.From, ", "))
	sb.WriteString(" where { " + ClausesString(q.Clauses) + " }")
	if len(q.GroupBy) > 0 {
		sb.WriteString(" group by " + strings.Join(q.GroupBy, ", "))
	}
	if len(q.OrderBy) > 0 {
		sb.WriteString(" order by ")
		for i, k := range q.OrderBy {
			if i > 0 {
				sb.WriteString(", ")
			}
			sb.WriteString(k.Binding)
			if k.Dir != "" {
				sb.WriteString(" " + k.Dir)
			}
		}
	}
	if q.Having != nil {
		sb.WriteString(" having " + q.Having.String())
	}
	if q.Global != nil {
		switch q.Global.Kind {
		case "before":
			sb.WriteString(" before " + FmtTime(q.Global.T1))
		case "after":
			sb.WriteString(" after " + FmtTime(q.Global.T1))
		default:
			sb.WriteString(" between " + FmtTime(q.Global.T1) + ", " + FmtTime(q.Global.T2))
		}
	}
	if q.Limit != nil {
		sb.WriteString(" limit " + *q.Limit)
	}
	sb.WriteString(";")
	return sb.String()
}

// ClausesString prints a clause list.
func ClausesString(cs []Clause) string {
	var parts []string
	for _, c := range cs {
		parts = append(parts, c.String())
	}
	return strings.Join(parts, " . ")
}

// Bindings returns every binding name a clause introduces, in a fixed order.
func (c Clause) Bindings() []string {
	var out []string
	add := func(s string) {
		if s != "" {
			out = append(out, s)
		}
	}
	add(c.S.Binding)
	add(c.S.As)
	add(c.S.Type)
	add(c.S.ID)
	add(c.P.Binding)
	add(c.P.AnchorB)
	add(c.P.As)
	add(c.P.IDAlias)
	add(c.P.At)
	add(c.O.Binding)
	add(c.O.AnchorB)
	add(c.O.As)
	add(c.O.Type)
	add(c.O.ID)
	add(c.O.At)
	return out
}

// AllBindings returns the distinct bindings of a clause list in order of first appearance.
func AllBindings(cs []Clause) []string {
	seen := map[string]bool{}
	var out []string
	for _, c := range cs {
		for _, b := range c.Bindings() {
			if !seen[b] {
				seen[b] = true
				out = append(out, b)
			}
		}
	}
	return out
}

// Specificity mirrors the documented notion: number of fully fixed positions.
func (c Clause) Specificity() int {
	n := 0
	if c.S.Node != nil {
		n++
	}
	if c.P.Pred != nil {
		n++
	}
	if c.O.Node != nil || c.O.Lit != nil || c.O.Pred != nil {
		n++
	}
	return n
}
