package bq

import (
	"fmt"

	"verif/harness/gen"
	"verif/harness/model"

	"pgregory.net/rapid"
)

// Universe is the BQL-printable vocabulary of one case.
type Universe struct {
	Nodes   []model.NodeSpec
	PredIDs []string
	Anchors []model.TimeSpec
	Lits    []model.LitSpec
}

func ts(sec int64, nsec, off int) model.TimeSpec {
	return model.TimeSpec{Sec: sec, Nsec: nsec, Off: off}
}

// BaseSec is 2006-01-02T15:04:05Z.
const BaseSec = int64(1136214245)

// DefaultUniverse returns the fixed vocabulary (generation picks subsets).
func DefaultUniverse() Universe {
	return Universe{
		Nodes:   []model.NodeSpec{{Type: "/u", ID: "a"}, {Type: "/u", ID: "b"}, {Type: "/u", ID: "c"}, {Type: "/t", ID: "a"}, {Type: "/u/x", ID: "model s"}, {Type: "/t", ID: "é"}},
		PredIDs: []string{"p", "q", "knows", "_r"},
		Anchors: []model.TimeSpec{ts(BaseSec, 0, 0), ts(BaseSec, 0, 3600), ts(BaseSec+86400, 500000000, 0), ts(BaseSec-365*86400, 0, -8*3600), ts(BaseSec+86400, 0, 0)},
		Lits: []model.LitSpec{
			{Kind: "bool", B: true}, {Kind: "int64", I: 1}, {Kind: "int64", I: -5}, {Kind: "int64", I: 20}, {Kind: "int64", I: 3},
			{Kind: "float64", F: 0x3ff8000000000000}, {Kind: "float64", F: 0xc002000000000000}, {Kind: "float64", F: 0x4024000000000000},
			{Kind: "text", S: "x"}, {Kind: "text", S: "model s"}, {Kind: "text", S: "a"}, {Kind: "text", S: ""}, {Kind: "blob", Blob: []byte{1, 2}},
		},
	}
}

// GenPred draws a predicate of the universe.
func (u Universe) GenPred(t *rapid.T, label string) model.PredSpec {
	p := model.PredSpec{ID: gen.Pick(t, u.PredIDs, label+"id")}
	if gen.Maybe(t, 50, label+"temporal") {
		a := gen.Pick(t, u.Anchors, label+"anchor")
		p.Anchor = &a
	}
	return p
}

// GenObj draws an object of the universe.
func (u Universe) GenObj(t *rapid.T, label string) model.ObjSpec {
	switch k := gen.Uniform(t, 10, label+"kind"); {
	case k < 5:
		n := gen.Pick(t, u.Nodes, label+"n")
		return model.ObjSpec{N: &n}
	case k < 8:
		l := gen.Pick(t, u.Lits, label+"l")
		return model.ObjSpec{L: &l}
	default:
		p := u.GenPred(t, label+"p")
		return model.ObjSpec{P: &p}
	}
}

// GenTriple draws a triple of the universe.
func (u Universe) GenTriple(t *rapid.T, label string) model.TripleSpec {
	return model.TripleSpec{S: gen.Pick(t, u.Nodes, label+"s"), P: u.GenPred(t, label+"p"), O: u.GenObj(t, label+"o")}
}

// GraphNames used by generated datasets.
var GraphNames = []string{"?g0", "?g1", "?g2"}

// GenDataset draws 1-3 graphs with up to maxPer triples each (distinct by key
// within a graph); some triples are stored in two graphs.
func (u Universe) GenDataset(t *rapid.T, maxPer int) Dataset {
	d := Dataset{}
	ng := 1 + gen.Uniform(t, 3, "ngraphs")
	pool := make([]model.TripleSpec, rapid.IntRange(3, 12).Draw(t, "npool"))
	for i := range pool {
		pool[i] = u.GenTriple(t, "pool")
		// a temporal sibling of an earlier pool member: same subject, predicate id and
		// object at another anchor (several matches of one "id"@[lo,hi] / "id"@[?t] clause
		// that agree on every other binding)
		if i > 0 && gen.Maybe(t, 25, "sibling") {
			sib := pool[gen.Uniform(t, i, "sibling-of")]
			a := gen.Pick(t, u.Anchors, "sibling-anchor")
			sib.P.Anchor = &a
			pool[i] = sib
		}
	}
	for g := 0; g < ng; g++ {
		name := GraphNames[g]
		n := gen.Uniform(t, maxPer+1, "ntriples")
		seen := map[string]bool{}
		d[name] = []model.TripleSpec{}
		for i := 0; i < n; i++ {
			var tr model.TripleSpec
			if gen.Maybe(t, 70, "frompool") {
				tr = gen.Pick(t, pool, "pt")
			} else {
				tr = u.GenTriple(t, "ft")
			}
			if !seen[tr.Key()] {
				seen[tr.Key()] = true
				d[name] = append(d[name], tr)
			}
		}
	}
	return d
}

// AllTriples lists the distinct triples of a dataset.
func (d Dataset) AllTriples() []model.TripleSpec {
	seen := map[string]bool{}
	var out []model.TripleSpec
	for _, g := range GraphNames {
		for _, t := range d[g] {
			if !seen[t.Key()] {
				seen[t.Key()] = true
				out = append(out, t)
			}
		}
	}
	return out
}

// Names lists the graph names present.
func (d Dataset) Names() []string {
	var out []string
	for _, g := range GraphNames {
		if _, ok := d[g]; ok {
			out = append(out, g)
		}
	}
	return out
}

// ---- query generation ----

// QGen carries the state of one query generation.
type QGen struct {
	T     *rapid.T
	U     Universe
	Data  []model.TripleSpec // to bias constants towards stored values
	names []string
	fresh int
	byVal map[string][]string
}

// GenClauseMixed draws a clause from a stored triple (mostly) or at random.
func (g *QGen) GenClauseMixed(label string, opt ClauseOpts) Clause {
	if tr, ok := g.someTriple(label + "witness"); ok && g.maybe(85, label+"fromdata") {
		return g.GenClauseFrom(tr, label, opt)
	}
	return g.GenClause(label, opt)
}

var bindingPool = []string{"?a", "?b", "?c", "?d", "?e"}

func (g *QGen) binding(label string) string {
	// reuse an already used name often, so that joins happen
	if len(g.names) > 0 && rapid.IntRange(0, 9).Draw(g.T, label+"reuse") < 4 {
		return rapid.SampledFrom(g.names).Draw(g.T, label+"old")
	}
	b := rapid.SampledFrom(bindingPool).Draw(g.T, label+"new")
	g.note(b)
	return b
}

func (g *QGen) note(b string) {
	for _, n := range g.names {
		if n == b {
			return
		}
	}
	g.names = append(g.names, b)
}

func (g *QGen) alias(label string) string {
	// mostly fresh, sometimes an existing name (repeated binding through an extraction)
	if len(g.names) > 0 && rapid.IntRange(0, 9).Draw(g.T, label+"areuse") == 0 {
		return rapid.SampledFrom(g.names).Draw(g.T, label+"aold")
	}
	g.fresh++
	b := fmt.Sprintf("?x%d", g.fresh)
	g.note(b)
	return b
}

func (g *QGen) maybe(pct int, label string) bool {
	return gen.Maybe(g.T, pct, label)
}

func (g *QGen) someTriple(label string) (model.TripleSpec, bool) {
	if len(g.Data) == 0 {
		return model.TripleSpec{}, false
	}
	return gen.Pick(g.T, g.Data, label), true
}

func (g *QGen) node(label string) model.NodeSpec {
	if tr, ok := g.someTriple(label + "from"); ok && g.maybe(70, label+"stored") {
		if tr.O.N != nil && g.maybe(40, label+"objnode") {
			return *tr.O.N
		}
		return tr.S
	}
	return rapid.SampledFrom(g.U.Nodes).Draw(g.T, label+"n")
}

func (g *QGen) pred(label string) model.PredSpec {
	if tr, ok := g.someTriple(label + "from"); ok && g.maybe(70, label+"stored") {
		if tr.O.P != nil && g.maybe(40, label+"objpred") {
			return *tr.O.P
		}
		return tr.P
	}
	return g.U.GenPred(g.T, label)
}

func (g *QGen) bound(label string) *Bound {
	b := &Bound{ID: rapid.SampledFrom(g.U.PredIDs).Draw(g.T, label+"id")}
	if tr, ok := g.someTriple(label + "from"); ok && g.maybe(70, label+"stored") {
		b.ID = tr.P.ID
	}
	pick := func(l string) *model.TimeSpec {
		a := rapid.SampledFrom(g.U.Anchors).Draw(g.T, l)
		switch rapid.IntRange(0, 3).Draw(g.T, l+"d") {
		case 0:
			a.Sec--
		case 1:
			a.Sec++
		}
		return &a
	}
	switch rapid.IntRange(0, 2).Draw(g.T, label+"sides") {
	case 0:
		b.Lo = pick(label + "lo")
	case 1:
		b.Hi = pick(label + "hi")
	default:
		b.Lo, b.Hi = pick(label+"lo"), pick(label+"hi")
		if inst(*b.Lo).After(inst(*b.Hi)) {
			b.Lo, b.Hi = b.Hi, b.Lo // the parser rejects lower > upper
		}
	}
	return b
}

// nameFor returns a binding name for a value: usually the name already given to
// the same value (so that joins have solutions), sometimes a fresh name,
// occasionally the name of ANOTHER value (so that conflicts are exercised).
func (g *QGen) nameFor(v Val, label string) string {
	if g.byVal == nil {
		g.byVal = map[string][]string{}
	}
	k := v.Key()
	if ns := g.byVal[k]; len(ns) > 0 && g.maybe(65, label+"same") {
		return gen.Pick(g.T, ns, label+"samen")
	}
	if len(g.names) > 0 && g.maybe(6, label+"clash") {
		return gen.Pick(g.T, g.names, label+"clashn")
	}
	g.fresh++
	b := fmt.Sprintf("?v%d", g.fresh)
	g.note(b)
	g.byVal[k] = append(g.byVal[k], b)
	return b
}

// GenClauseFrom abstracts a stored triple into a clause that matches it (unless
// a deliberate clash was drawn): each position stays a constant or becomes a
// binding named after its value.
func (g *QGen) GenClauseFrom(tr model.TripleSpec, label string, opt ClauseOpts) Clause {
	var c Clause
	// subject
	if g.maybe(25, label+"sconst") {
		n := tr.S
		c.S.Node = &n
	} else {
		c.S.Binding = g.nameFor(nodeVal(tr.S), label+"s")
	}
	if g.maybe(10, label+"sas") {
		c.S.As = g.nameFor(nodeVal(tr.S), label+"sas")
	}
	if g.maybe(10, label+"stype") {
		c.S.Type = g.nameFor(strVal(tr.S.Type), label+"stype")
	}
	if g.maybe(10, label+"sid") {
		c.S.ID = g.nameFor(strVal(tr.S.ID), label+"sid")
	}
	c.S.IDFirst = g.maybe(50, label+"sidfirst")
	// predicate
	k := gen.Uniform(g.T, 100, label+"pk")
	switch {
	case k < 30:
		p := tr.P
		c.P.Pred = &p
	case k < 45 && tr.P.Anchor != nil:
		c.P.AnchorID = tr.P.ID
		c.P.AnchorB = g.nameFor(timeVal(*tr.P.Anchor), label+"pab")
	case k < 55 && tr.P.Anchor != nil && !opt.NoBounds:
		c.P.Bound = g.boundAround(tr.P.ID, *tr.P.Anchor, label+"pb")
	default:
		c.P.Binding = g.nameFor(predVal(tr.P), label+"p")
	}
	if g.maybe(8, label+"pas") {
		c.P.As = g.nameFor(predVal(tr.P), label+"pas")
	}
	if g.maybe(8, label+"pid") {
		c.P.IDAlias = g.nameFor(strVal(tr.P.ID), label+"pid")
	}
	if c.P.Bound == nil && tr.P.Anchor != nil && g.maybe(12, label+"pat") {
		c.P.At = g.nameFor(timeVal(*tr.P.Anchor), label+"pat")
	} else if c.P.Bound == nil && tr.P.Anchor == nil && g.maybe(3, label+"patimm") {
		c.P.At = g.alias(label + "patimm") // AT on an immutable predicate: cannot apply
	}
	// object
	ov := ObjVal(tr.O)
	k = gen.Uniform(g.T, 100, label+"ok")
	switch {
	case k < 25:
		switch {
		case tr.O.N != nil:
			n := *tr.O.N
			c.O.Node = &n
		case tr.O.L != nil:
			l := *tr.O.L
			c.O.Lit = &l
		default:
			p := *tr.O.P
			c.O.Pred = &p
		}
	case k < 40 && tr.O.P != nil && tr.O.P.Anchor != nil:
		c.O.AnchorID = tr.O.P.ID
		c.O.AnchorB = g.nameFor(timeVal(*tr.O.P.Anchor), label+"oab")
	case k < 50 && tr.O.P != nil && tr.O.P.Anchor != nil && !opt.NoBounds:
		c.O.Bound = g.boundAround(tr.O.P.ID, *tr.O.P.Anchor, label+"ob")
	default:
		c.O.Binding = g.nameFor(ov, label+"o")
	}
	if g.maybe(8, label+"oas") {
		c.O.As = g.nameFor(ov, label+"oas")
	}
	if c.O.Lit == nil {
		if tr.O.N != nil && c.O.Pred == nil && c.O.AnchorID == "" && c.O.Bound == nil {
			if g.maybe(10, label+"otype") {
				c.O.Type = g.nameFor(strVal(tr.O.N.Type), label+"otype")
			}
			if g.maybe(10, label+"oid") {
				c.O.ID = g.nameFor(strVal(tr.O.N.ID), label+"oid")
			}
		} else if tr.O.P != nil {
			if g.maybe(10, label+"opid") {
				c.O.ID = g.nameFor(strVal(tr.O.P.ID), label+"opid")
			}
			if tr.O.P.Anchor != nil && c.O.Bound == nil && g.maybe(10, label+"opat") {
				c.O.At = g.nameFor(timeVal(*tr.O.P.Anchor), label+"opat")
			}
		} else if c.O.Binding != "" {
			// literal object behind a binding: extractions that cannot apply
			if g.maybe(4, label+"olid") {
				c.O.ID = g.alias(label + "olid")
			}
			if g.maybe(4, label+"oltype") {
				c.O.Type = g.alias(label + "oltype")
			}
			if g.maybe(3, label+"olat") {
				c.O.At = g.alias(label + "olat")
			}
		}
	}
	// forms the grammar does not allow: TYPE on predicate constants, AT on nodes, extractions on literal constants
	if c.O.Node != nil {
		c.O.At = ""
	}
	if c.O.Pred != nil || c.O.AnchorID != "" || c.O.Bound != nil {
		c.O.Type = ""
	}
	if c.O.Bound != nil {
		c.O.At = ""
	}
	if c.O.Lit != nil {
		c.O.Type, c.O.ID, c.O.At = "", "", ""
	}
	c.O.IDFirst = g.maybe(50, label+"oidfirst")
	return c
}

func (g *QGen) boundAround(id string, a model.TimeSpec, label string) *Bound {
	b := &Bound{ID: id}
	lo, hi := a, a
	switch gen.Uniform(g.T, 6, label+"shape") {
	case 0: // closed on the anchor itself
	case 1:
		lo.Sec -= 10
		hi.Sec += 10
	case 2:
		lo.Sec -= 86400 * 400
	case 3:
		hi.Sec += 86400 * 400
	case 4: // excludes the anchor
		lo.Sec += 1
		hi.Sec += 100
	default:
		lo.Off, hi.Off = 3600, -3600
	}
	switch gen.Uniform(g.T, 4, label+"sides") {
	case 0:
		b.Lo = &lo
	case 1:
		b.Hi = &hi
	default:
		b.Lo, b.Hi = &lo, &hi
	}
	return b
}

// Options tune clause generation.
type ClauseOpts struct {
	NoBounds bool // no "id"@[lo,hi] forms
}

// GenClause draws one clause.
func (g *QGen) GenClause(label string, opt ClauseOpts) Clause {
	var c Clause
	// subject
	if g.maybe(25, label+"sconst") {
		n := g.node(label + "s")
		c.S.Node = &n
	} else {
		c.S.Binding = g.binding(label + "s")
	}
	if g.maybe(12, label+"sas") {
		c.S.As = g.alias(label + "sas")
	}
	if g.maybe(12, label+"stype") {
		c.S.Type = g.alias(label + "stype")
	}
	if g.maybe(12, label+"sid") {
		c.S.ID = g.alias(label + "sid")
	}
	c.S.IDFirst = c.S.As == "" && c.S.ID != "" && c.S.Type != "" && g.maybe(50, label+"sidfirst")
	if c.S.As != "" {
		c.S.IDFirst = g.maybe(50, label+"sidfirst2")
	}
	// predicate
	switch k := gen.Uniform(g.T, 100, label+"pk"); {
	case k < 30:
		p := g.pred(label + "p")
		c.P.Pred = &p
	case k < 42:
		c.P.AnchorID = g.pred(label + "pa").ID
		c.P.AnchorB = g.binding(label + "pab")
	case k < 52 && !opt.NoBounds:
		c.P.Bound = g.bound(label + "pb")
	default:
		c.P.Binding = g.binding(label + "p")
	}
	if g.maybe(10, label+"pas") {
		c.P.As = g.alias(label + "pas")
	}
	if g.maybe(10, label+"pid") {
		c.P.IDAlias = g.alias(label + "pid")
	}
	if c.P.Bound == nil && g.maybe(10, label+"pat") {
		c.P.At = g.alias(label + "pat")
	}
	// object
	switch k := gen.Uniform(g.T, 100, label+"ok"); {
	case k < 10:
		var l model.LitSpec
		if tr, ok := g.someTriple(label + "olfrom"); ok && tr.O.L != nil {
			l = *tr.O.L
		} else {
			l = rapid.SampledFrom(g.U.Lits).Draw(g.T, label+"ol")
		}
		c.O.Lit = &l
		if g.maybe(15, label+"olas") {
			c.O.As = g.alias(label + "olas")
		}
	case k < 25:
		n := g.node(label + "on")
		c.O.Node = &n
		if g.maybe(12, label+"onas") {
			c.O.As = g.alias(label + "onas")
		}
		if g.maybe(12, label+"ontype") {
			c.O.Type = g.alias(label + "ontype")
		}
		if g.maybe(12, label+"onid") {
			c.O.ID = g.alias(label + "onid")
		}
	case k < 31:
		p := g.pred(label + "op")
		c.O.Pred = &p
		g.objPredAliases(&c, label)
	case k < 36:
		c.O.AnchorID = g.pred(label + "oa").ID
		c.O.AnchorB = g.binding(label + "oab")
		g.objPredAliases(&c, label)
	case k < 40 && !opt.NoBounds:
		c.O.Bound = g.bound(label + "ob")
		if g.maybe(10, label+"obas") {
			c.O.As = g.alias(label + "obas")
		}
		if g.maybe(10, label+"obid") {
			c.O.ID = g.alias(label + "obid")
		}
	default:
		c.O.Binding = g.binding(label + "o")
		if g.maybe(10, label+"oas") {
			c.O.As = g.alias(label + "oas")
		}
		if g.maybe(10, label+"otype") {
			c.O.Type = g.alias(label + "otype")
		}
		if g.maybe(10, label+"oid") {
			c.O.ID = g.alias(label + "oid")
		}
		if g.maybe(8, label+"oat") {
			c.O.At = g.alias(label + "oat")
		}
	}
	if c.O.Node != nil || c.O.Binding != "" {
		// grammar: AS b [ID/TYPE in any order]; TYPE b [ID b]; ID b [TYPE b]
		switch {
		case c.O.As != "":
			c.O.IDFirst = g.maybe(50, label+"oidfirst")
		case c.O.ID != "" && c.O.Type != "":
			c.O.IDFirst = g.maybe(50, label+"oidfirst2")
		}
	}
	return c
}

func (g *QGen) objPredAliases(c *Clause, label string) {
	if g.maybe(10, label+"opas") {
		c.O.As = g.alias(label + "opas")
	}
	if g.maybe(10, label+"opid") {
		c.O.ID = g.alias(label + "opid")
	}
	if g.maybe(10, label+"opat") {
		c.O.At = g.alias(label + "opat")
	}
}

// GenGlobal draws a global time bound.
func (g *QGen) GenGlobal() *Global {
	a := rapid.SampledFrom(g.U.Anchors).Draw(g.T, "ga")
	switch rapid.IntRange(0, 2).Draw(g.T, "gd") {
	case 0:
		a.Sec--
	case 1:
		a.Sec++
	}
	gl := &Global{Kind: rapid.SampledFrom([]string{"before", "after", "between"}).Draw(g.T, "gkind"), T1: a}
	if gl.Kind == "between" {
		b := rapid.SampledFrom(g.U.Anchors).Draw(g.T, "gb")
		if inst(b).Before(inst(a)) {
			a, b = b, a
		}
		gl.T1, gl.T2 = a, b
	}
	return gl
}

// GenProjection draws a non-empty subset of the bindings, some with AS.
func (g *QGen) GenProjection(all []string) []Proj {
	var out []Proj
	used := map[string]bool{}
	for _, b := range all {
		if g.maybe(60, "proj") {
			p := Proj{Binding: b}
			if g.maybe(20, "projas") {
				g.fresh++
				p.Alias = fmt.Sprintf("?o%d", g.fresh)
			}
			if !used[p.OutName()] {
				used[p.OutName()] = true
				out = append(out, p)
			}
		}
	}
	if len(out) == 0 && len(all) > 0 {
		out = append(out, Proj{Binding: all[0]})
	}
	return out
}

// timeBindings lists the bindings of a clause that hold a time anchor when the clause matches.
func timeBindings(c Clause) []string {
	var out []string
	for _, b := range []string{c.P.AnchorB, c.P.At, c.O.AnchorB, c.O.At} {
		if b != "" {
			out = append(out, b)
		}
	}
	return out
}

// AliasBounds rewrites some interval sides into bindings that ANOTHER clause provides as a
// time value ("id"@[?lo,?hi], "id"@[?lo,], "id"@[,?hi]); when no clause has an interval form
// but some clause has a temporal predicate form, that form may be turned into such an
// interval. Returns the clauses and whether anything was rewritten.
func (g *QGen) AliasBounds(cs []Clause, pct int, objToo bool) ([]Clause, bool) {
	out := append([]Clause{}, cs...)
	changed := false
	usedAsSide := map[string]bool{} // bindings already serving as an interval side: their provider must stay
	// no clause both provides an interval side and has interval sides of its own: the planner
	// evaluates a bounded clause after its providers, which mutual dependencies make impossible
	// (such statements are rejected when planned; outside the fragment)
	hasSides := map[int]bool{}
	provides := map[int]bool{}
	providerOf := map[string][]int{}
	for i := range out {
		if provides[i] {
			continue
		}
		var pool []string
		own := map[string]bool{}
		for _, b := range out[i].Bindings() {
			own[b] = true
		}
		for j := range out {
			if j == i || out[j].Optional || hasSides[j] {
				continue
			}
			for _, b := range timeBindings(out[j]) {
				// type-correct statements only: the binding holds a time wherever it occurs
				if !own[b] && onlyTimePositions(out, b) {
					pool = append(pool, b)
					providerOf[b] = append(providerOf[b], j)
				}
			}
		}
		if len(pool) == 0 || !g.maybe(pct, "alias-bound") {
			continue
		}
		c := out[i]
		if c.P.Bound == nil && c.O.Bound == nil {
			// turn a temporal predicate form into an interval of the same id
			switch {
			case c.P.Pred != nil && c.P.Pred.Anchor != nil && c.P.At == "":
				c.P = PPos{Bound: &Bound{ID: c.P.Pred.ID}, As: c.P.As, IDAlias: c.P.IDAlias}
			case c.P.AnchorID != "" && c.P.At == "" && !usedElsewhere(out, i, c.P.AnchorB) && !usedAsSide[c.P.AnchorB]:
				c.P = PPos{Bound: &Bound{ID: c.P.AnchorID}, As: c.P.As, IDAlias: c.P.IDAlias}
			default:
				continue
			}
		}
		sides := []*Bound{c.P.Bound}
		if objToo {
			sides = append(sides, c.O.Bound)
		}
		for _, b := range sides {
			if b == nil {
				continue
			}
			nb := *b
			switch gen.Uniform(g.T, 3, "alias-side") {
			case 0:
				nb.Lo, nb.LoB = nil, gen.Pick(g.T, pool, "alias-lo")
			case 1:
				nb.Hi, nb.HiB = nil, gen.Pick(g.T, pool, "alias-hi")
			default:
				nb.Lo, nb.LoB = nil, gen.Pick(g.T, pool, "alias-lo2")
				nb.Hi, nb.HiB = nil, gen.Pick(g.T, pool, "alias-hi2")
			}
			if b == c.P.Bound {
				c.P.Bound = &nb
			} else {
				c.O.Bound = &nb
			}
			usedAsSide[nb.LoB], usedAsSide[nb.HiB] = true, true
			hasSides[i] = true
			for _, side := range []string{nb.LoB, nb.HiB} {
				for _, j := range providerOf[side] {
					provides[j] = true
				}
			}
			changed = true
			break
		}
		out[i] = c
	}
	return out, changed
}

// usedElsewhere: binding b occurs in a clause other than clause i.
func usedElsewhere(cs []Clause, i int, b string) bool {
	for j, c := range cs {
		if j == i {
			continue
		}
		for _, x := range c.Bindings() {
			if x == b {
				return true
			}
		}
	}
	return false
}

// onlyTimePositions: every occurrence of binding b in the clauses is an anchor position
// ("id"@[?b] or AT ?b), so b holds a time in every solution.
func onlyTimePositions(cs []Clause, b string) bool {
	for _, c := range cs {
		n := 0
		for _, x := range c.Bindings() {
			if x == b {
				n++
			}
		}
		for _, x := range timeBindings(c) {
			if x == b {
				n--
			}
		}
		if n != 0 {
			return false
		}
	}
	return true
}
