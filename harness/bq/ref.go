package bq

import (
	"fmt"
	"math"
	"sort"
	"strings"
	"time"

	"verif/harness/model"
)

// Val is a value of the reference semantics: N, P, L, T, S or NULL (Kind 0).
type Val struct {
	Kind byte            `json:"k"` // 'N' 'P' 'L' 'T' 'S' or 0
	N    *model.NodeSpec `json:"n,omitempty"`
	P    *model.PredSpec `json:"p,omitempty"`
	L    *model.LitSpec  `json:"l,omitempty"`
	T    *model.TimeSpec `json:"t,omitempty"`
	S    *string         `json:"s,omitempty"`
}

// Null is the NULL value.
var Null = Val{}

// Key is the canonical key of a value.
func (v Val) Key() string {
	switch v.Kind {
	case 'N':
		return v.N.Key()
	case 'P':
		return v.P.Key()
	case 'L':
		return v.L.Key()
	case 'T':
		return v.T.Key()
	case 'S':
		return fmt.Sprintf("S(%q)", *v.S)
	}
	return "NULL"
}

// SubKind refines the kind by literal type (used for ordering rules).
func (v Val) SubKind() string {
	if v.Kind == 'L' {
		return "L:" + v.L.Kind
	}
	if v.Kind == 0 {
		return "NULL"
	}
	return string(v.Kind)
}

func nodeVal(n model.NodeSpec) Val { return Val{Kind: 'N', N: &n} }
func predVal(p model.PredSpec) Val { return Val{Kind: 'P', P: &p} }
func litVal(l model.LitSpec) Val   { return Val{Kind: 'L', L: &l} }
func timeVal(t model.TimeSpec) Val { return Val{Kind: 'T', T: &t} }
func strVal(s string) Val          { return Val{Kind: 'S', S: &s} }

// ObjVal is the value of an object.
func ObjVal(o model.ObjSpec) Val {
	switch {
	case o.N != nil:
		return nodeVal(*o.N)
	case o.P != nil:
		return predVal(*o.P)
	default:
		return litVal(*o.L)
	}
}

// Env is a binding environment.
type Env map[string]Val

func inst(t model.TimeSpec) time.Time { return time.Unix(t.Sec, int64(t.Nsec)) }

func inBound(a model.TimeSpec, b *Bound) bool {
	if b.Lo != nil && inst(a).Before(inst(*b.Lo)) {
		return false
	}
	if b.Hi != nil && inst(a).After(inst(*b.Hi)) {
		return false
	}
	return true
}

// GlobalAllows applies BEFORE/AFTER/BETWEEN to the triple's own predicate.
func GlobalAllows(g *Global, t model.TripleSpec) bool {
	if g == nil || t.P.Anchor == nil {
		return true
	}
	a := inst(*t.P.Anchor)
	switch g.Kind {
	case "before":
		return !a.After(inst(g.T1))
	case "after":
		return !a.Before(inst(g.T1))
	default:
		return !a.Before(inst(g.T1)) && !a.After(inst(g.T2))
	}
}

// MatchInfo describes how a clause matched a triple.
type MatchInfo struct {
	Env Env
	// Inapplicable lists bindings whose extraction cannot apply to this triple
	// (the clause then does not match; for OPTIONAL clauses the implementation
	// documents a NULL cell instead — C10 treats both as acceptable).
	Inapplicable []string
	// PAnchor / OAnchor: the anchor matched by an "id"@[?lo,?hi] form whose sides are
	// bindings; the interval can only be tested once those bindings have values
	// (AliasBoundsHold), which another clause provides.
	PAnchor, OAnchor *model.TimeSpec
}

// AliasBoundsHold tests the binding sides of the clause's "id"@[?lo,?hi] forms against
// the anchors matched by mi under env: each named binding must hold a time value and
// lower <= anchor <= upper (closed, as for constant sides).
func AliasBoundsHold(c Clause, mi MatchInfo, env Env) bool {
	test := func(b *Bound, a *model.TimeSpec) bool {
		if b == nil || a == nil {
			return true
		}
		if b.LoB != "" {
			v, ok := env[b.LoB]
			if !ok || v.Kind != 'T' || inst(*a).Before(inst(*v.T)) {
				return false
			}
		}
		if b.HiB != "" {
			v, ok := env[b.HiB]
			if !ok || v.Kind != 'T' || inst(*a).After(inst(*v.T)) {
				return false
			}
		}
		return true
	}
	return test(c.P.Bound, mi.PAnchor) && test(c.O.Bound, mi.OAnchor)
}

// HasAliasBound reports whether a clause list uses a binding as a side of a time interval.
func HasAliasBound(cs []Clause) bool {
	for _, c := range cs {
		for _, b := range []*Bound{c.P.Bound, c.O.Bound} {
			if b != nil && (b.LoB != "" || b.HiB != "") {
				return true
			}
		}
	}
	return false
}

// Match decides whether clause c matches triple t (ignoring the global bound)
// and produces the bindings. ok=false with len(Inapplicable)>0 means "would
// match but an extraction cannot apply".
func Match(c Clause, t model.TripleSpec) (mi MatchInfo, ok bool) {
	env := Env{}
	conflict := false
	set := func(b string, v Val) {
		if b == "" {
			return
		}
		if old, has := env[b]; has && old.Key() != v.Key() {
			conflict = true
		}
		env[b] = v
	}
	// subject
	if c.S.Node != nil && c.S.Node.Key() != t.S.Key() {
		return mi, false
	}
	set(c.S.Binding, nodeVal(t.S))
	set(c.S.As, nodeVal(t.S))
	set(c.S.Type, strVal(t.S.Type))
	set(c.S.ID, strVal(t.S.ID))
	// predicate
	var inapp []string
	switch {
	case c.P.Pred != nil:
		if c.P.Pred.Key() != t.P.Key() {
			return mi, false
		}
	case c.P.AnchorID != "":
		if t.P.ID != c.P.AnchorID {
			return mi, false
		}
		if t.P.Anchor == nil {
			inapp = append(inapp, c.P.AnchorB)
		} else {
			set(c.P.AnchorB, timeVal(*t.P.Anchor))
		}
	case c.P.Bound != nil:
		if t.P.ID != c.P.Bound.ID || t.P.Anchor == nil || !inBound(*t.P.Anchor, c.P.Bound) {
			return mi, false
		}
		if c.P.Bound.LoB != "" || c.P.Bound.HiB != "" {
			mi.PAnchor = t.P.Anchor
		}
	default:
		set(c.P.Binding, predVal(t.P))
	}
	set(c.P.As, predVal(t.P))
	set(c.P.IDAlias, strVal(t.P.ID))
	if c.P.At != "" {
		if t.P.Anchor == nil {
			inapp = append(inapp, c.P.At)
		} else {
			set(c.P.At, timeVal(*t.P.Anchor))
		}
	}
	// object
	ov := ObjVal(t.O)
	switch {
	case c.O.Node != nil:
		if t.O.N == nil || c.O.Node.Key() != t.O.N.Key() {
			return mi, false
		}
	case c.O.Lit != nil:
		if t.O.L == nil || c.O.Lit.Key() != t.O.L.Key() {
			return mi, false
		}
	case c.O.Pred != nil:
		if t.O.P == nil || c.O.Pred.Key() != t.O.P.Key() {
			return mi, false
		}
	case c.O.AnchorID != "":
		if t.O.P == nil || t.O.P.ID != c.O.AnchorID {
			return mi, false
		}
		if t.O.P.Anchor == nil {
			inapp = append(inapp, c.O.AnchorB)
		} else {
			set(c.O.AnchorB, timeVal(*t.O.P.Anchor))
		}
	case c.O.Bound != nil:
		if t.O.P == nil || t.O.P.ID != c.O.Bound.ID || t.O.P.Anchor == nil || !inBound(*t.O.P.Anchor, c.O.Bound) {
			return mi, false
		}
		if c.O.Bound.LoB != "" || c.O.Bound.HiB != "" {
			mi.OAnchor = t.O.P.Anchor
		}
	default:
		set(c.O.Binding, ov)
	}
	set(c.O.As, ov)
	if c.O.Type != "" {
		if t.O.N == nil {
			inapp = append(inapp, c.O.Type)
		} else {
			set(c.O.Type, strVal(t.O.N.Type))
		}
	}
	if c.O.ID != "" {
		switch {
		case t.O.N != nil:
			set(c.O.ID, strVal(t.O.N.ID))
		case t.O.P != nil:
			set(c.O.ID, strVal(t.O.P.ID))
		default:
			inapp = append(inapp, c.O.ID)
		}
	}
	if c.O.At != "" {
		if t.O.P == nil || t.O.P.Anchor == nil {
			inapp = append(inapp, c.O.At)
		} else {
			set(c.O.At, timeVal(*t.O.P.Anchor))
		}
	}
	if conflict {
		return mi, false
	}
	mi.Env = env
	if len(inapp) > 0 {
		mi.Inapplicable = inapp
		return mi, false
	}
	return mi, true
}

// Dataset is graph name -> stored triples (distinct by key within a graph).
type Dataset map[string][]model.TripleSpec

// Candidate is a (graph, triple) pair.
type Candidate struct {
	Graph  string
	Triple model.TripleSpec
}

// Candidates lists the triples of the FROM graphs with per-graph multiplicity.
func Candidates(d Dataset, from []string) []Candidate {
	var out []Candidate
	for _, g := range from {
		for _, t := range d[g] {
			out = append(out, Candidate{g, t})
		}
	}
	return out
}

// Solve returns the environments of the conjunctive pattern: one per choice of
// a matching (graph, triple) for every clause such that all bindings agree.
func Solve(clauses []Clause, cands []Candidate, g *Global) []Env {
	type partial struct {
		env Env
		mis []MatchInfo // only kept when some clause has a binding as an interval side
	}
	alias := HasAliasBound(clauses)
	parts := []partial{{env: Env{}}}
	for _, c := range clauses {
		var next []partial
		for _, pt := range parts {
			for _, cand := range cands {
				if !GlobalAllows(g, cand.Triple) {
					continue
				}
				mi, ok := Match(c, cand.Triple)
				if !ok {
					continue
				}
				merged, agree := mergeEnv(pt.env, mi.Env)
				if agree {
					np := partial{env: merged}
					if alias {
						np.mis = append(append([]MatchInfo{}, pt.mis...), mi)
					}
					next = append(next, np)
				}
			}
		}
		parts = next
	}
	envs := make([]Env, 0, len(parts))
	for _, pt := range parts {
		ok := true
		if alias {
			// the binding sides of intervals are tested against the complete assignment:
			// the clause providing the binding may be written before or after
			for i, c := range clauses {
				if !AliasBoundsHold(c, pt.mis[i], pt.env) {
					ok = false
					break
				}
			}
		}
		if ok {
			envs = append(envs, pt.env)
		}
	}
	return envs
}

func mergeEnv(a, b Env) (Env, bool) {
	out := Env{}
	for k, v := range a {
		out[k] = v
	}
	for k, v := range b {
		if old, has := out[k]; has {
			if old.Key() != v.Key() {
				return nil, false
			}
			continue
		}
		out[k] = v
	}
	return out, true
}

// RowKey renders an environment restricted to the given columns.
func RowKey(e Env, cols []string) string {
	parts := make([]string, len(cols))
	for i, c := range cols {
		v, ok := e[c]
		if !ok {
			parts[i] = c + "=NULL"
			continue
		}
		parts[i] = c + "=" + v.Key()
	}
	return strings.Join(parts, " | ")
}

// SortedCols returns the column names sorted (binding-name order).
func SortedCols(cols []string) []string {
	c := append([]string{}, cols...)
	sort.Strings(c)
	return c
}

// Project renames environments according to the projection list (no aggregates).
func Project(envs []Env, proj []Proj) []Env {
	out := make([]Env, 0, len(envs))
	for _, e := range envs {
		r := Env{}
		for _, p := range proj {
			v, ok := e[p.Binding]
			if !ok {
				v = Null
			}
			r[p.OutName()] = v
		}
		out = append(out, r)
	}
	return out
}

// ---- ordering and comparison of values (C12, C13) ----

// CompareSameKind compares two values of the same sub-kind as the statements of
// C12/C13 define: numbers numerically, anchors chronologically, everything else
// by its printed form (C12) — for text literals C13 says "lexicographically",
// i.e. on the text itself, selected by textByPrintedForm=false. ok=false when
// the sub-kinds differ or a value is NULL.
func CompareSameKind(a, b Val, textByPrintedForm bool) (int, bool) {
	if a.Kind == 0 || b.Kind == 0 || a.SubKind() != b.SubKind() {
		return 0, false
	}
	cmpStr := func(x, y string) int {
		switch {
		case x < y:
			return -1
		case x > y:
			return 1
		}
		return 0
	}
	switch a.Kind {
	case 'T':
		x, y := inst(*a.T), inst(*b.T)
		switch {
		case x.Before(y):
			return -1, true
		case x.After(y):
			return 1, true
		}
		return 0, true
	case 'S':
		return cmpStr(*a.S, *b.S), true
	case 'N':
		return cmpStr(FmtNode(*a.N), FmtNode(*b.N)), true
	case 'P':
		return cmpStr(FmtPred(*a.P), FmtPred(*b.P)), true
	case 'L':
		switch a.L.Kind {
		case "int64":
			switch {
			case a.L.I < b.L.I:
				return -1, true
			case a.L.I > b.L.I:
				return 1, true
			}
			return 0, true
		case "float64":
			x, y := math.Float64frombits(a.L.F), math.Float64frombits(b.L.F)
			switch {
			case x < y:
				return -1, true
			case x > y:
				return 1, true
			}
			return 0, true
		case "text":
			if textByPrintedForm {
				return cmpStr(FmtLit(*a.L), FmtLit(*b.L)), true
			}
			return cmpStr(a.L.S, b.L.S), true
		default:
			return cmpStr(FmtLit(*a.L), FmtLit(*b.L)), true
		}
	}
	return 0, false
}
