// Package model holds the serialisable value specifications used in every
// generated case, the constructors that turn them into real badwolf values and
// the canonical keys that define "the same value" for all oracles (DESIGN §2.5).
//
// Keys are computed from components only — never from UUID() or String() of
// the implementation.
package model

import (
	"fmt"
	"math"
	"time"

	"github.com/google/badwolf/triple"
	"github.com/google/badwolf/triple/literal"
	"github.com/google/badwolf/triple/node"
	"github.com/google/badwolf/triple/predicate"
)

// NodeSpec specifies a node.
type NodeSpec struct {
	Type string `json:"t"`
	ID   string `json:"id"`
}

// TimeSpec specifies an instant and the zone offset it is expressed in.
type TimeSpec struct {
	Sec  int64 `json:"sec"`
	Nsec int   `json:"ns,omitempty"`
	Off  int   `json:"off,omitempty"` // seconds east of UTC
}

// PredSpec specifies a predicate; Anchor == nil means immutable.
type PredSpec struct {
	ID     string    `json:"id"`
	Anchor *TimeSpec `json:"at,omitempty"`
}

// LitSpec specifies a literal.
type LitSpec struct {
	Kind string `json:"k"` // bool int64 float64 text blob
	B    bool   `json:"b,omitempty"`
	I    int64  `json:"i,omitempty"`
	F    uint64 `json:"f,omitempty"` // IEEE bits
	S    string `json:"s,omitempty"`
	Blob []byte `json:"blob,omitempty"`
}

// ObjSpec specifies an object: exactly one field is set.
type ObjSpec struct {
	N *NodeSpec `json:"n,omitempty"`
	P *PredSpec `json:"p,omitempty"`
	L *LitSpec  `json:"l,omitempty"`
}

// TripleSpec specifies a triple.
type TripleSpec struct {
	S NodeSpec `json:"s"`
	P PredSpec `json:"p"`
	O ObjSpec  `json:"o"`
}

// Time builds the time value.
func (ts TimeSpec) Time() time.Time {
	t := time.Unix(ts.Sec, int64(ts.Nsec))
	if ts.Off == 0 {
		return t.UTC()
	}
	return t.In(time.FixedZone("", ts.Off))
}

// SpecOfTime returns the spec of a time value.
func SpecOfTime(t time.Time) TimeSpec {
	_, off := t.Zone()
	return TimeSpec{Sec: t.Unix(), Nsec: t.Nanosecond(), Off: off}
}

// Build constructs the node through the public constructor.
func (n NodeSpec) Build() (*node.Node, error) {
	return node.NewNodeFromStrings(n.Type, n.ID)
}

// Build constructs the predicate through the public constructors.
func (p PredSpec) Build() (*predicate.Predicate, error) {
	if p.Anchor == nil {
		return predicate.NewImmutable(p.ID)
	}
	return predicate.NewTemporal(p.ID, p.Anchor.Time())
}

// Value returns the Go value boxed by the literal.
func (l LitSpec) Value() (literal.Type, interface{}) {
	switch l.Kind {
	case "bool":
		return literal.Bool, l.B
	case "int64":
		return literal.Int64, l.I
	case "float64":
		return literal.Float64, math.Float64frombits(l.F)
	case "text":
		return literal.Text, l.S
	case "blob":
		b := l.Blob
		if b == nil {
			b = []byte{}
		}
		return literal.Blob, b
	}
	panic("bad literal kind " + l.Kind)
}

// Build constructs the literal through the default builder.
func (l LitSpec) Build() (*literal.Literal, error) {
	t, v := l.Value()
	return literal.DefaultBuilder().Build(t, v)
}

// Build constructs the object.
func (o ObjSpec) Build() (*triple.Object, error) {
	switch {
	case o.N != nil:
		n, err := o.N.Build()
		if err != nil {
			return nil, err
		}
		return triple.NewNodeObject(n), nil
	case o.P != nil:
		p, err := o.P.Build()
		if err != nil {
			return nil, err
		}
		return triple.NewPredicateObject(p), nil
	case o.L != nil:
		l, err := o.L.Build()
		if err != nil {
			return nil, err
		}
		return triple.NewLiteralObject(l), nil
	}
	return nil, fmt.Errorf("empty object spec")
}

// Build constructs the triple.
func (t TripleSpec) Build() (*triple.Triple, error) {
	s, err := t.S.Build()
	if err != nil {
		return nil, err
	}
	p, err := t.P.Build()
	if err != nil {
		return nil, err
	}
	o, err := t.O.Build()
	if err != nil {
		return nil, err
	}
	return triple.New(s, p, o)
}

// MustTriple builds or panics (generators only emit constructible specs).
func (t TripleSpec) MustTriple() *triple.Triple {
	r, err := t.Build()
	if err != nil {
		panic(fmt.Sprintf("spec %+v not constructible: %v", t, err))
	}
	return r
}

// ---- canonical keys from specs ----

// Key of a node spec.
func (n NodeSpec) Key() string { return fmt.Sprintf("N(%q,%q)", n.Type, n.ID) }

// Key of a time spec (instant only, zone-insensitive).
func (ts TimeSpec) Key() string {
	// normalise nsec into [0,1e9)
	t := time.Unix(ts.Sec, int64(ts.Nsec))
	return fmt.Sprintf("T(%d,%d)", t.Unix(), t.Nanosecond())
}

// Key of a predicate spec.
func (p PredSpec) Key() string {
	if p.Anchor == nil {
		return fmt.Sprintf("P(%q,imm)", p.ID)
	}
	return fmt.Sprintf("P(%q,%s)", p.ID, p.Anchor.Key())
}

// Key of a literal spec.
func (l LitSpec) Key() string {
	switch l.Kind {
	case "bool":
		return fmt.Sprintf("L(bool,%v)", l.B)
	case "int64":
		return fmt.Sprintf("L(int64,%d)", l.I)
	case "float64":
		return fmt.Sprintf("L(float64,%016x)", l.F)
	case "text":
		return fmt.Sprintf("L(text,%q)", l.S)
	case "blob":
		return fmt.Sprintf("L(blob,%x)", l.Blob)
	}
	panic("bad literal kind " + l.Kind)
}

// Key of an object spec.
func (o ObjSpec) Key() string {
	switch {
	case o.N != nil:
		return o.N.Key()
	case o.P != nil:
		return o.P.Key()
	case o.L != nil:
		return o.L.Key()
	}
	return "O(?)"
}

// Key of a triple spec.
func (t TripleSpec) Key() string {
	return t.S.Key() + " " + t.P.Key() + " " + t.O.Key()
}

// ---- canonical keys from real values (outputs of the implementation) ----

// KeyNode computes the key of a real node from its components.
func KeyNode(n *node.Node) string {
	if n == nil {
		return "N(<nil>)"
	}
	ty, id := "", ""
	if n.Type() != nil {
		ty = n.Type().String()
	} else {
		ty = "<niltype>"
	}
	if n.ID() != nil {
		id = n.ID().String()
	} else {
		id = "<nilid>"
	}
	return fmt.Sprintf("N(%q,%q)", ty, id)
}

// KeyTime computes the key of an instant.
func KeyTime(t time.Time) string {
	return fmt.Sprintf("T(%d,%d)", t.Unix(), t.Nanosecond())
}

// KeyPred computes the key of a real predicate from its components.
func KeyPred(p *predicate.Predicate) string {
	if p == nil {
		return "P(<nil>)"
	}
	if p.Type() == predicate.Immutable {
		return fmt.Sprintf("P(%q,imm)", string(p.ID()))
	}
	ta, err := p.TimeAnchor()
	if err != nil || ta == nil {
		return fmt.Sprintf("P(%q,<noanchor>)", string(p.ID()))
	}
	return fmt.Sprintf("P(%q,%s)", string(p.ID()), KeyTime(*ta))
}

// KeyLit computes the key of a real literal from its components.
func KeyLit(l *literal.Literal) string {
	if l == nil {
		return "L(<nil>)"
	}
	switch l.Type() {
	case literal.Bool:
		v, _ := l.Bool()
		return fmt.Sprintf("L(bool,%v)", v)
	case literal.Int64:
		v, _ := l.Int64()
		return fmt.Sprintf("L(int64,%d)", v)
	case literal.Float64:
		v, _ := l.Float64()
		return fmt.Sprintf("L(float64,%016x)", math.Float64bits(v))
	case literal.Text:
		v, _ := l.Text()
		return fmt.Sprintf("L(text,%q)", v)
	case literal.Blob:
		v, _ := l.Blob()
		return fmt.Sprintf("L(blob,%x)", v)
	}
	return fmt.Sprintf("L(?%d)", l.Type())
}

// KeyObj computes the key of a real object.
func KeyObj(o *triple.Object) string {
	if o == nil {
		return "O(<nil>)"
	}
	if n, err := o.Node(); err == nil && n != nil {
		return KeyNode(n)
	}
	if l, err := o.Literal(); err == nil && l != nil {
		return KeyLit(l)
	}
	if p, err := o.Predicate(); err == nil && p != nil {
		return KeyPred(p)
	}
	return "O(<empty>)"
}

// KeyTriple computes the key of a real triple.
func KeyTriple(t *triple.Triple) string {
	if t == nil {
		return "<niltriple>"
	}
	return KeyNode(t.Subject()) + " " + KeyPred(t.Predicate()) + " " + KeyObj(t.Object())
}

// SpecOfNode reads back a spec from a real node.
func SpecOfNode(n *node.Node) NodeSpec {
	return NodeSpec{Type: n.Type().String(), ID: n.ID().String()}
}

// SpecOfPred reads back a spec from a real predicate.
func SpecOfPred(p *predicate.Predicate) PredSpec {
	if p.Type() == predicate.Immutable {
		return PredSpec{ID: string(p.ID())}
	}
	ta, _ := p.TimeAnchor()
	ts := SpecOfTime(*ta)
	return PredSpec{ID: string(p.ID()), Anchor: &ts}
}

// SpecOfLit reads back a spec from a real literal.
func SpecOfLit(l *literal.Literal) LitSpec {
	switch l.Type() {
	case literal.Bool:
		v, _ := l.Bool()
		return LitSpec{Kind: "bool", B: v}
	case literal.Int64:
		v, _ := l.Int64()
		return LitSpec{Kind: "int64", I: v}
	case literal.Float64:
		v, _ := l.Float64()
		return LitSpec{Kind: "float64", F: math.Float64bits(v)}
	case literal.Text:
		v, _ := l.Text()
		return LitSpec{Kind: "text", S: v}
	default:
		v, _ := l.Blob()
		return LitSpec{Kind: "blob", Blob: v}
	}
}

// SpecOfObj reads back a spec from a real object.
func SpecOfObj(o *triple.Object) ObjSpec {
	if n, err := o.Node(); err == nil && n != nil {
		s := SpecOfNode(n)
		return ObjSpec{N: &s}
	}
	if l, err := o.Literal(); err == nil && l != nil {
		s := SpecOfLit(l)
		return ObjSpec{L: &s}
	}
	p, _ := o.Predicate()
	s := SpecOfPred(p)
	return ObjSpec{P: &s}
}

// SpecOfTriple reads back a spec from a real triple.
func SpecOfTriple(t *triple.Triple) TripleSpec {
	return TripleSpec{S: SpecOfNode(t.Subject()), P: SpecOfPred(t.Predicate()), O: SpecOfObj(t.Object())}
}

// IsNaN tells if the literal spec is a float NaN.
func (l LitSpec) IsNaN() bool {
	return l.Kind == "float64" && math.IsNaN(math.Float64frombits(l.F))
}
