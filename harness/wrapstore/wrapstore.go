// Package wrapstore provides a pure storage.Store / storage.Graph wrapper that
// numbers every driver call and lets a Hook observe it, block it (gates for
// forced interleavings, C19) or make it fail in a chosen mode (fault injection,
// C20). It is a well-behaved driver: a lookup that fails still closes its
// channel before returning the error.
package wrapstore

import (
	"context"
	"fmt"
	"sync"

	"github.com/google/badwolf/storage"
	"github.com/google/badwolf/triple"
	"github.com/google/badwolf/triple/node"
	"github.com/google/badwolf/triple/predicate"
)

// Call describes one driver call.
type Call struct {
	Seq    int    // position in the sequence of calls seen by this store (from 0)
	Graph  string // graph id ("" for store-level calls)
	Method string
	Write  bool
	Lookup bool // delivers elements through a channel
	Ctx    context.Context
}

// Fault tells the wrapper to fail the call.
type Fault struct {
	Err error
	// After: number of elements to deliver before failing (lookups only);
	// 0 = fail before delivering anything.
	After int
}

// Hook observes and controls calls.
type Hook interface {
	Before(c Call) *Fault
	After(c Call, delivered int, err error)
}

// Store wraps an inner store.
type Store struct {
	Inner storage.Store
	H     Hook
	mu    sync.Mutex
	seq   int
}

// New wraps inner.
func New(inner storage.Store, h Hook) *Store { return &Store{Inner: inner, H: h} }

func (s *Store) next(ctx context.Context, graph, method string, write, lookup bool) Call {
	s.mu.Lock()
	defer s.mu.Unlock()
	c := Call{Seq: s.seq, Graph: graph, Method: method, Write: write, Lookup: lookup, Ctx: ctx}
	s.seq++
	return c
}

// Calls returns the number of calls seen so far.
func (s *Store) Calls() int {
	s.mu.Lock()
	defer s.mu.Unlock()
	return s.seq
}

func (s *Store) Name(ctx context.Context) string    { return s.Inner.Name(ctx) }
func (s *Store) Version(ctx context.Context) string { return s.Inner.Version(ctx) }

func (s *Store) NewGraph(ctx context.Context, id string) (storage.Graph, error) {
	c := s.next(ctx, id, "NewGraph", true, false)
	if f := s.H.Before(c); f != nil {
		s.H.After(c, 0, f.Err)
		return nil, f.Err
	}
	g, err := s.Inner.NewGraph(ctx, id)
	s.H.After(c, 0, err)
	if err != nil {
		return nil, err
	}
	return &Graph{s: s, g: g, id: id}, nil
}

func (s *Store) Graph(ctx context.Context, id string) (storage.Graph, error) {
	c := s.next(ctx, id, "Graph", false, false)
	if f := s.H.Before(c); f != nil {
		s.H.After(c, 0, f.Err)
		return nil, f.Err
	}
	g, err := s.Inner.Graph(ctx, id)
	s.H.After(c, 0, err)
	if err != nil {
		return nil, err
	}
	return &Graph{s: s, g: g, id: id}, nil
}

func (s *Store) DeleteGraph(ctx context.Context, id string) error {
	c := s.next(ctx, id, "DeleteGraph", true, false)
	if f := s.H.Before(c); f != nil {
		s.H.After(c, 0, f.Err)
		return f.Err
	}
	err := s.Inner.DeleteGraph(ctx, id)
	s.H.After(c, 0, err)
	return err
}

func (s *Store) GraphNames(ctx context.Context, names chan<- string) error {
	c := s.next(ctx, "", "GraphNames", false, true)
	return forward(s, c, names, func(ch chan<- string) error { return s.Inner.GraphNames(ctx, ch) })
}

// forward runs an inner lookup and relays its elements, applying a fault if the hook asks for one.
func forward[T any](s *Store, c Call, out chan<- T, inner func(chan<- T) error) error {
	f := s.H.Before(c)
	if f != nil && f.After <= 0 {
		close(out)
		s.H.After(c, 0, f.Err)
		return f.Err
	}
	mid := make(chan T)
	var ierr error
	done := make(chan struct{})
	go func() {
		defer close(done)
		ierr = inner(mid)
	}()
	n := 0
	failed := false
	for v := range mid {
		if failed {
			continue // drain the inner driver
		}
		if f != nil && n >= f.After {
			failed = true
			continue
		}
		out <- v
		n++
	}
	<-done
	close(out)
	if f != nil {
		if !failed {
			// fewer elements than the requested position: fail after all of them
			failed = true
		}
		s.H.After(c, n, f.Err)
		return f.Err
	}
	s.H.After(c, n, ierr)
	return ierr
}

// Graph wraps an inner graph.
type Graph struct {
	s  *Store
	g  storage.Graph
	id string
}

func (g *Graph) ID(ctx context.Context) string { return g.g.ID(ctx) }

func (g *Graph) AddTriples(ctx context.Context, ts []*triple.Triple) error {
	c := g.s.next(ctx, g.id, "AddTriples", true, false)
	if f := g.s.H.Before(c); f != nil {
		g.s.H.After(c, 0, f.Err)
		return f.Err
	}
	err := g.g.AddTriples(ctx, ts)
	g.s.H.After(c, 0, err)
	return err
}

func (g *Graph) RemoveTriples(ctx context.Context, ts []*triple.Triple) error {
	c := g.s.next(ctx, g.id, "RemoveTriples", true, false)
	if f := g.s.H.Before(c); f != nil {
		g.s.H.After(c, 0, f.Err)
		return f.Err
	}
	err := g.g.RemoveTriples(ctx, ts)
	g.s.H.After(c, 0, err)
	return err
}

func (g *Graph) Exist(ctx context.Context, t *triple.Triple) (bool, error) {
	c := g.s.next(ctx, g.id, "Exist", false, false)
	if f := g.s.H.Before(c); f != nil {
		g.s.H.After(c, 0, f.Err)
		return false, f.Err
	}
	b, err := g.g.Exist(ctx, t)
	g.s.H.After(c, 0, err)
	return b, err
}

func (g *Graph) Objects(ctx context.Context, s *node.Node, p *predicate.Predicate, lo *storage.LookupOptions, objs chan<- *triple.Object) error {
	return forward(g.s, g.s.next(ctx, g.id, "Objects", false, true), objs, func(ch chan<- *triple.Object) error { return g.g.Objects(ctx, s, p, lo, ch) })
}

func (g *Graph) Subjects(ctx context.Context, p *predicate.Predicate, o *triple.Object, lo *storage.LookupOptions, subs chan<- *node.Node) error {
	return forward(g.s, g.s.next(ctx, g.id, "Subjects", false, true), subs, func(ch chan<- *node.Node) error { return g.g.Subjects(ctx, p, o, lo, ch) })
}

func (g *Graph) PredicatesForSubject(ctx context.Context, s *node.Node, lo *storage.LookupOptions, prds chan<- *predicate.Predicate) error {
	return forward(g.s, g.s.next(ctx, g.id, "PredicatesForSubject", false, true), prds, func(ch chan<- *predicate.Predicate) error { return g.g.PredicatesForSubject(ctx, s, lo, ch) })
}

func (g *Graph) PredicatesForObject(ctx context.Context, o *triple.Object, lo *storage.LookupOptions, prds chan<- *predicate.Predicate) error {
	return forward(g.s, g.s.next(ctx, g.id, "PredicatesForObject", false, true), prds, func(ch chan<- *predicate.Predicate) error { return g.g.PredicatesForObject(ctx, o, lo, ch) })
}

func (g *Graph) PredicatesForSubjectAndObject(ctx context.Context, s *node.Node, o *triple.Object, lo *storage.LookupOptions, prds chan<- *predicate.Predicate) error {
	return forward(g.s, g.s.next(ctx, g.id, "PredicatesForSubjectAndObject", false, true), prds, func(ch chan<- *predicate.Predicate) error {
		return g.g.PredicatesForSubjectAndObject(ctx, s, o, lo, ch)
	})
}

func (g *Graph) TriplesForSubject(ctx context.Context, s *node.Node, lo *storage.LookupOptions, trpls chan<- *triple.Triple) error {
	return forward(g.s, g.s.next(ctx, g.id, "TriplesForSubject", false, true), trpls, func(ch chan<- *triple.Triple) error { return g.g.TriplesForSubject(ctx, s, lo, ch) })
}

func (g *Graph) TriplesForPredicate(ctx context.Context, p *predicate.Predicate, lo *storage.LookupOptions, trpls chan<- *triple.Triple) error {
	return forward(g.s, g.s.next(ctx, g.id, "TriplesForPredicate", false, true), trpls, func(ch chan<- *triple.Triple) error { return g.g.TriplesForPredicate(ctx, p, lo, ch) })
}

func (g *Graph) TriplesForObject(ctx context.Context, o *triple.Object, lo *storage.LookupOptions, trpls chan<- *triple.Triple) error {
	return forward(g.s, g.s.next(ctx, g.id, "TriplesForObject", false, true), trpls, func(ch chan<- *triple.Triple) error { return g.g.TriplesForObject(ctx, o, lo, ch) })
}

func (g *Graph) TriplesForSubjectAndPredicate(ctx context.Context, s *node.Node, p *predicate.Predicate, lo *storage.LookupOptions, trpls chan<- *triple.Triple) error {
	return forward(g.s, g.s.next(ctx, g.id, "TriplesForSubjectAndPredicate", false, true), trpls, func(ch chan<- *triple.Triple) error {
		return g.g.TriplesForSubjectAndPredicate(ctx, s, p, lo, ch)
	})
}

func (g *Graph) TriplesForPredicateAndObject(ctx context.Context, p *predicate.Predicate, o *triple.Object, lo *storage.LookupOptions, trpls chan<- *triple.Triple) error {
	return forward(g.s, g.s.next(ctx, g.id, "TriplesForPredicateAndObject", false, true), trpls, func(ch chan<- *triple.Triple) error {
		return g.g.TriplesForPredicateAndObject(ctx, p, o, lo, ch)
	})
}

func (g *Graph) Triples(ctx context.Context, lo *storage.LookupOptions, trpls chan<- *triple.Triple) error {
	return forward(g.s, g.s.next(ctx, g.id, "Triples", false, true), trpls, func(ch chan<- *triple.Triple) error { return g.g.Triples(ctx, lo, ch) })
}

// ---- hooks ----

// Recorder records the calls and injects nothing.
type Recorder struct {
	mu    sync.Mutex
	Calls []Call
	Elems []int
}

func (r *Recorder) Before(c Call) *Fault { return nil }
func (r *Recorder) After(c Call, delivered int, err error) {
	r.mu.Lock()
	defer r.mu.Unlock()
	r.Calls = append(r.Calls, c)
	r.Elems = append(r.Elems, delivered)
}

// FaultAt fails exactly the call with sequence number K.
type FaultAt struct {
	K     int
	Elems int // elements to deliver before failing
	// Persist: every call from K on fails (an outage), the first one after Elems
	// elements, the later ones before delivering anything
	Persist bool
	mu      sync.Mutex
	Fired   bool
	Hit     Call
}

// ErrInjected is the injected driver error.
var ErrInjected = fmt.Errorf("injected storage driver failure")

func (f *FaultAt) Before(c Call) *Fault {
	if f.Persist && c.Seq > f.K {
		return &Fault{Err: ErrInjected}
	}
	if c.Seq != f.K {
		return nil
	}
	f.mu.Lock()
	f.Fired, f.Hit = true, c
	f.mu.Unlock()
	return &Fault{Err: ErrInjected, After: f.Elems}
}
func (f *FaultAt) After(Call, int, error) {}

// Gate blocks selected calls at entry and at exit until released.
type Gate struct {
	mu      sync.Mutex
	Arrived chan GateEvent // announces that a call is blocked at a gate
	release map[string]chan struct{}
	Match   func(c Call) string // returns the actor name for gated calls, "" for free calls
}

// GateEvent says which actor is blocked at which gate ("enter"/"exit").
type GateEvent struct {
	Actor string
	Point string
}

// NewGate creates a gate hook.
func NewGate(match func(c Call) string) *Gate {
	return &Gate{Arrived: make(chan GateEvent, 64), release: map[string]chan struct{}{}, Match: match}
}

func (g *Gate) wait(actor, point string) {
	ch := make(chan struct{})
	g.mu.Lock()
	g.release[actor+"/"+point] = ch
	g.mu.Unlock()
	g.Arrived <- GateEvent{actor, point}
	<-ch
}

// Release lets the actor blocked at point continue.
func (g *Gate) Release(actor, point string) bool {
	g.mu.Lock()
	ch := g.release[actor+"/"+point]
	delete(g.release, actor+"/"+point)
	g.mu.Unlock()
	if ch == nil {
		return false
	}
	close(ch)
	return true
}

func (g *Gate) Before(c Call) *Fault {
	if a := g.Match(c); a != "" {
		g.wait(a, "enter")
	}
	return nil
}

func (g *Gate) After(c Call, _ int, _ error) {
	if a := g.Match(c); a != "" {
		g.wait(a, "exit")
	}
}
