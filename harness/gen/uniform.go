package gen

import "pgregory.net/rapid"

// Uniform draws an integer in [0,n) with a uniform distribution. rapid's own
// integer and SampledFrom generators are deliberately biased towards small
// values (geometric bit length), which distorts "with probability p" choices;
// fair bits are drawn instead (rapid.Bool is unbiased).
func Uniform(t *rapid.T, n int, label string) int {
	if n <= 1 {
		return 0
	}
	bits := 0
	for (1 << bits) < n {
		bits++
	}
	for try := 0; try < 8; try++ {
		v := 0
		for i := 0; i < bits; i++ {
			v <<= 1
			if rapid.Bool().Draw(t, label) {
				v |= 1
			}
		}
		if v < n {
			return v
		}
	}
	return 0
}

// Maybe is true with probability pct/100.
func Maybe(t *rapid.T, pct int, label string) bool {
	return Uniform(t, 100, label) < pct
}

// Pick chooses a slice element uniformly.
func Pick[T any](t *rapid.T, xs []T, label string) T {
	return xs[Uniform(t, len(xs), label)]
}
