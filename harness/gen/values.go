// Package gen holds the rapid generators for value specifications (DESIGN §3.1).
// Only inputs in the documented domain are produced.
package gen

import (
	"math"
	"strings"
	"unicode/utf8"

	"verif/harness/model"

	"pgregory.net/rapid"
)

// ---- node ----

var typeSegs = []string{"a", "b", "bc", "c", "u", "t", "_", "type", "é", "a.b", "x-y", "0"}

// NodeType draws `/seg(/seg)*`.
func NodeType() *rapid.Generator[string] {
	return rapid.Custom(func(t *rapid.T) string {
		n := rapid.IntRange(1, 3).Draw(t, "nseg")
		var sb strings.Builder
		for i := 0; i < n; i++ {
			sb.WriteByte('/')
			if rapid.IntRange(0, 9).Draw(t, "segpool") < 8 {
				sb.WriteString(rapid.SampledFrom(typeSegs).Draw(t, "seg"))
			} else {
				sb.WriteString(rapid.StringMatching(`[a-zA-Z0-9_\-\.@\[\]"^:é世]{1,4}`).Draw(t, "segr"))
			}
		}
		return sb.String()
	})
}

var idPool = []string{"a", "b", "c", "bc", "/a", "a/b", "x", "1", "true", "é", "_", "a\"b", "@[", "]", "[]", "^^type:text", "\\"}

// NodeID draws a non-empty id without '<', '>' and without whitespace.
func NodeID() *rapid.Generator[string] {
	return rapid.Custom(func(t *rapid.T) string {
		if rapid.IntRange(0, 9).Draw(t, "idpool") < 6 {
			return rapid.SampledFrom(idPool).Draw(t, "id")
		}
		return rapid.StringMatching(`[a-zA-Z0-9_\-\./@\[\]"^:\\é世,;?]{1,6}`).Draw(t, "idr")
	})
}

// UUIDSpellings are texts naming the same two UUIDs in the spellings a lenient UUID parser
// accepts (blank nodes made by node.NewBlankNode carry such an id under type /_).
var UUIDSpellings = []string{
	"6ba7b810-9dad-11d1-80b4-00c04fd430c8", "6BA7B810-9DAD-11D1-80B4-00C04FD430C8", "urn:uuid:6ba7b810-9dad-11d1-80b4-00c04fd430c8",
	"{6ba7b810-9dad-11d1-80b4-00c04fd430c8}", "6ba7b8109dad11d180b400c04fd430c8", "6ba7b810-9dad-11d1-80b4-00c04fd430c9", "6BA7B810-9dad-11d1-80b4-00c04fd430c9",
}

// Node draws a node spec.
func Node() *rapid.Generator[model.NodeSpec] {
	return rapid.Custom(func(t *rapid.T) model.NodeSpec {
		if rapid.IntRange(0, 11).Draw(t, "blank-uuid") == 0 {
			// a blank node whose id is UUID text
			return model.NodeSpec{Type: rapid.SampledFrom([]string{"/_", "/_", "/u"}).Draw(t, "btype"), ID: rapid.SampledFrom(UUIDSpellings).Draw(t, "bid")}
		}
		return model.NodeSpec{Type: NodeType().Draw(t, "type"), ID: NodeID().Draw(t, "id")}
	})
}

// ---- time ----

// Year bounds for RFC 3339: 0000-01-01T00:00:00Z .. 9999-12-31T23:59:59Z.
const (
	MinSec = -62167219200
	MaxSec = 253402300799
)

// base instants: 2006-01-02T15:04:05Z and one day later, one before 1678, one after 2262.
var baseSecs = []int64{1136214245, 1136300645, -9999999999, 9999999999, 0, 1500000000}
var nsecPool = []int{0, 0, 500000000, 1, 999999999, 120000000, 123456789}
var offPool = []int{0, 0, 3600, -8 * 3600, 5*3600 + 1800, -3600 * 11, 14 * 3600}

// Time draws a time spec; biased to a small pool so collisions and ties are frequent.
func Time() *rapid.Generator[model.TimeSpec] {
	return rapid.Custom(func(t *rapid.T) model.TimeSpec {
		var ts model.TimeSpec
		switch rapid.IntRange(0, 9).Draw(t, "tmode") {
		case 0, 1, 2, 3, 4, 5:
			ts.Sec = rapid.SampledFrom(baseSecs[:2]).Draw(t, "base2")
			ts.Nsec = rapid.SampledFrom(nsecPool[:3]).Draw(t, "ns3")
		case 6, 7:
			ts.Sec = rapid.SampledFrom(baseSecs).Draw(t, "base")
			ts.Nsec = rapid.SampledFrom(nsecPool).Draw(t, "ns")
		default:
			ts.Sec = rapid.Int64Range(MinSec, MaxSec).Draw(t, "sec")
			ts.Nsec = rapid.IntRange(0, 999999999).Draw(t, "nsr")
		}
		ts.Off = rapid.SampledFrom(offPool).Draw(t, "off")
		// keep the *local* year inside 0000..9999 too
		if ts.Sec+int64(ts.Off) < MinSec || ts.Sec+int64(ts.Off) > MaxSec {
			ts.Off = 0
		}
		return ts
	})
}

// ---- predicate ----

var predIDPool = []string{"p", "q", "knows", "follows", "_subject", "a\"b", "\"@[", "x\"@[]", "]", "[", "@", "\\", "a\\", "\\\"", "a\\\"b", "\\\\\"", "say \\\\\"hi\\\\\" twice", "\\\\", "é", "世界", "'", "p,q", "?x", "<n>", "\"^^type:text", "see\"^^type:text,p.3", "x\"^^type:int64", "back\\slash", "soft\u00adhyphen", "zero\u200bwidth", "bell\a"}

// PredID draws a non-empty valid-UTF-8 id without whitespace.
func PredID() *rapid.Generator[string] {
	return rapid.Custom(func(t *rapid.T) string {
		switch rapid.IntRange(0, 9).Draw(t, "pidmode") {
		case 0, 1, 2, 3:
			return rapid.SampledFrom(predIDPool[:4]).Draw(t, "pid4")
		case 4, 5, 6:
			return rapid.SampledFrom(predIDPool).Draw(t, "pid")
		default:
			s := rapid.StringMatching(`[a-zA-Z0-9_\-\./@\[\]"^:\\é世,;?<>']{1,6}`).Draw(t, "pidr")
			return s
		}
	})
}

// Pred draws a predicate spec (immutable or temporal).
func Pred() *rapid.Generator[model.PredSpec] {
	return rapid.Custom(func(t *rapid.T) model.PredSpec {
		p := model.PredSpec{ID: PredID().Draw(t, "id")}
		if rapid.Bool().Draw(t, "temporal") {
			ts := Time().Draw(t, "anchor")
			p.Anchor = &ts
		}
		return p
	})
}

// ---- literal ----

var intPool = []int64{0, 1, -1, 2, 10, -10, 1 << 55, -(1 << 55), 1<<55 - 1, -(1<<55 - 1), math.MaxInt64, math.MinInt64, 1 << 62, 1<<63 - 2, 116, 1702195828}
var floatPool = []float64{0, math.Copysign(0, -1), 1, -1, 0.5, 1.5, -2.25, math.Inf(1), math.Inf(-1), math.SmallestNonzeroFloat64, 1e300, -1e300, 1.0000001, 1.0000002, 1e33, math.MaxFloat64, 2.2250738585072014e-308, 1e-7}
var textPool = []string{"", "a", "true", "1", "1.0", "x y", "100% sure", "%d", "a%%b", "%s%v%!", "%", "[1] \"A temporal graph store\", 2015", "x] /y", "a> \"b", "] \"", "see [2]\t/t<a>", "\"", "a\"b", "\"^^type:text", "\"^^type:int64", "x\"^^type:bool", "\"@[", "]", "[1 2]", "\\", "a\\", "\\\"", "a\\\"b", "\\\\\"", "say \\\\\"hi\\\\\" twice", "\\\\", "é", "世界", " lead", "trail ", "a\tb", "<x>", "/t<a>", "_:b", "?x", "NaN"}
var blobPool = [][]byte{{}, {0}, {116, 114, 117, 101}, {255}, {1, 2, 3}, {34, 94, 94}, {32}}

// Lit draws a literal spec. NaN is produced only when allowNaN is set.
func Lit(allowNaN bool) *rapid.Generator[model.LitSpec] {
	return rapid.Custom(func(t *rapid.T) model.LitSpec {
		switch rapid.IntRange(0, 4).Draw(t, "lkind") {
		case 0:
			return model.LitSpec{Kind: "bool", B: rapid.Bool().Draw(t, "b")}
		case 1:
			if rapid.IntRange(0, 9).Draw(t, "ipool") < 6 {
				return model.LitSpec{Kind: "int64", I: rapid.SampledFrom(intPool).Draw(t, "i")}
			}
			return model.LitSpec{Kind: "int64", I: rapid.Int64().Draw(t, "ir")}
		case 2:
			var f float64
			if rapid.IntRange(0, 9).Draw(t, "fpool") < 6 {
				f = rapid.SampledFrom(floatPool).Draw(t, "f")
			} else {
				f = math.Float64frombits(rapid.Uint64().Draw(t, "fbits"))
			}
			if math.IsNaN(f) && !allowNaN {
				f = 42.5
			}
			if math.IsNaN(f) {
				f = math.NaN() // one canonical NaN
			}
			return model.LitSpec{Kind: "float64", F: math.Float64bits(f)}
		case 3:
			return model.LitSpec{Kind: "text", S: Text().Draw(t, "s")}
		default:
			if rapid.IntRange(0, 9).Draw(t, "bpool") < 6 {
				return model.LitSpec{Kind: "blob", Blob: append([]byte{}, rapid.SampledFrom(blobPool).Draw(t, "blob")...)}
			}
			return model.LitSpec{Kind: "blob", Blob: rapid.SliceOfN(rapid.Byte(), 0, 8).Draw(t, "blobr")}
		}
	})
}

// Text draws valid UTF-8 text without line breaks.
func Text() *rapid.Generator[string] {
	return rapid.Custom(func(t *rapid.T) string {
		if rapid.IntRange(0, 9).Draw(t, "tpool") < 6 {
			return rapid.SampledFrom(textPool).Draw(t, "text")
		}
		s := rapid.StringMatching(`[a-zA-Z0-9 _\-\./@\[\]"^:\\é世,;?<>'\t%{}$#&|~]{0,8}`).Draw(t, "textr")
		if !utf8.ValidString(s) {
			return "x"
		}
		return s
	})
}

// Obj draws an object spec.
func Obj(allowNaN bool) *rapid.Generator[model.ObjSpec] {
	return rapid.Custom(func(t *rapid.T) model.ObjSpec {
		switch rapid.IntRange(0, 3).Draw(t, "okind") {
		case 0:
			n := Node().Draw(t, "on")
			return model.ObjSpec{N: &n}
		case 1:
			p := Pred().Draw(t, "op")
			return model.ObjSpec{P: &p}
		default:
			l := Lit(allowNaN).Draw(t, "ol")
			return model.ObjSpec{L: &l}
		}
	})
}

// Triple draws a triple spec.
func Triple(allowNaN bool) *rapid.Generator[model.TripleSpec] {
	return rapid.Custom(func(t *rapid.T) model.TripleSpec {
		return model.TripleSpec{S: Node().Draw(t, "s"), P: Pred().Draw(t, "p"), O: Obj(allowNaN).Draw(t, "o")}
	})
}
