// gomutate lists first-order source mutants of one Go file as JSON edits
// (byte offsets into the original file). Used by tools/mutation_campaign.py.
package main

import (
	"encoding/json"
	"fmt"
	"go/ast"
	"go/parser"
	"go/token"
	"os"
	"strconv"
)

type Mutant struct {
	File  string `json:"file"`
	Line  int    `json:"line"`
	Func  string `json:"func"`
	Op    string `json:"op"`
	Start int    `json:"start"`
	End   int    `json:"end"`
	Repl  string `json:"repl"`
	Orig  string `json:"orig"`
}

var swaps = map[token.Token][]string{
	token.LSS: {"<="}, token.LEQ: {"<"}, token.GTR: {">="}, token.GEQ: {">"},
	token.EQL: {"!="}, token.NEQ: {"=="}, token.LAND: {"||"}, token.LOR: {"&&"},
	token.ADD: {"-"}, token.SUB: {"+"},
}

func main() {
	path := os.Args[1]
	rel := os.Args[2]
	src, err := os.ReadFile(path)
	if err != nil {
		panic(err)
	}
	fset := token.NewFileSet()
	f, err := parser.ParseFile(fset, path, src, 0)
	if err != nil {
		panic(err)
	}
	var out []Mutant
	off := func(p token.Pos) int { return fset.Position(p).Offset }
	for _, d := range f.Decls {
		fd, ok := d.(*ast.FuncDecl)
		if !ok || fd.Body == nil {
			continue
		}
		name := fd.Name.Name
		if fd.Recv != nil && len(fd.Recv.List) > 0 {
			switch t := fd.Recv.List[0].Type.(type) {
			case *ast.StarExpr:
				if id, ok := t.X.(*ast.Ident); ok {
					name = id.Name + "." + name
				}
			case *ast.Ident:
				name = t.Name + "." + name
			}
		}
		add := func(op string, s, e int, repl string) {
			out = append(out, Mutant{File: rel, Line: fset.Position(fd.Pos()).Line + countNL(src[off(fd.Pos()):s]), Func: name, Op: op, Start: s, End: e, Repl: repl, Orig: string(src[s:e])})
		}
		ast.Inspect(fd.Body, func(n ast.Node) bool {
			switch x := n.(type) {
			case *ast.BinaryExpr:
				for _, r := range swaps[x.Op] {
					// skip string concatenation
					if x.Op == token.ADD {
						if bl, ok := x.X.(*ast.BasicLit); ok && bl.Kind == token.STRING {
							continue
						}
						if bl, ok := x.Y.(*ast.BasicLit); ok && bl.Kind == token.STRING {
							continue
						}
					}
					s := off(x.OpPos)
					add("binop "+x.Op.String()+"->"+r, s, s+len(x.Op.String()), r)
				}
			case *ast.IfStmt:
				s, e := off(x.Cond.Pos()), off(x.Cond.End())
				add("negate-if", s, e, "!("+string(src[s:e])+")")
			case *ast.BranchStmt:
				if x.Label == nil {
					s, e := off(x.Pos()), off(x.End())
					switch x.Tok {
					case token.BREAK:
						// only inside for loops is continue valid; the compiler rejects the others
						add("break->continue", s, e, "continue")
					case token.CONTINUE:
						add("continue->break", s, e, "break")
					}
				}
			case *ast.ExprStmt:
				if _, ok := x.X.(*ast.CallExpr); ok {
					s, e := off(x.Pos()), off(x.End())
					add("delete-call", s, e, "_ = 0")
				}
			case *ast.DeferStmt:
				s, e := off(x.Pos()), off(x.End())
				add("delete-defer", s, e, "_ = 0")
			case *ast.AssignStmt:
				if x.Tok == token.ASSIGN || x.Tok == token.ADD_ASSIGN {
					s, e := off(x.Pos()), off(x.End())
					add("delete-assign", s, e, "_ = 0")
				}
			case *ast.IncDecStmt:
				s, e := off(x.Pos()), off(x.End())
				add("delete-incdec", s, e, "_ = 0")
			case *ast.BasicLit:
				if x.Kind == token.INT {
					if v, err := strconv.ParseInt(x.Value, 0, 64); err == nil {
						s, e := off(x.Pos()), off(x.End())
						add("int+1", s, e, fmt.Sprint(v+1))
						if v > 0 {
							add("int-1", s, e, fmt.Sprint(v-1))
						}
					}
				}
			case *ast.Ident:
				if x.Name == "true" || x.Name == "false" {
					s, e := off(x.Pos()), off(x.End())
					r := "true"
					if x.Name == "true" {
						r = "false"
					}
					add("bool-flip", s, e, r)
				}
			case *ast.ReturnStmt:
				// return nil instead of the error:  `return err` / `return x, err`
				if len(x.Results) > 0 {
					if id, ok := x.Results[len(x.Results)-1].(*ast.Ident); ok && id.Name == "err" {
						s, e := off(id.Pos()), off(id.End())
						add("return-err->nil", s, e, "nil")
					}
				}
			}
			return true
		})
	}
	json.NewEncoder(os.Stdout).Encode(out)
}

func countNL(b []byte) int {
	n := 0
	for _, c := range b {
		if c == '\n' {
			n++
		}
	}
	return n
}
